"""C17 Direct data literals convert to the documented typed values.

Literals are CONSTRUCTED together with their class and (where construction determines it)
their intended value: double / single quoted strings, none/true/yes/false/no in any case,
path text, lat/lon (dddNmm.mm, S/W negative), the six point forms, signed decimal ints,
hex ints, floats (decimal, exponent, signed), complex. The expected typed value of a text in
a context is computed by a small reference converter written from the converters' docstrings
(the documented ORDER per context):
  data contexts (init / put / set / inc / do with|per|cum):
        quoted string, none, bool, path text, lat/lon, points (xy ne fs xyz ned fsb), int, hex, float, complex
  need goals (basic and elapsed/recurred needs): quoted string, none, bool, lat/lon, int, hex, float, complex;
        anything else is an indirect goal (share path)
  numbers (need tolerance, bid period, timeout, repeat): int, hex, float, complex
and cross-checked against the intended value of the construction (a disagreement there is a
harness error, not a finding). Each script places ~14 literals in every context; values are
observed in the share after build (init), in the resolved act parms (put/set/inc data, do
parms/inits/ioinits, need goal / tolerance, bid period, timeout / repeat goals) and in the
shares after a tick-bounded run (put / set / inc).

Round-trip family: finite ints / floats / complex, bools, None, points with fixed-point
coordinates and quote-free strings are written in their literal form and converted back
(by the data converter directly, and through `init` in built scripts).
"""
import math
import re
import string

from hypothesis import strategies as st

from vp.core import env
from vp.core.acc import Acc
from vp.core.hyp import campaign, Outcome, Budget
from vp.flo.build import build_text, run_bounded

PROPERTY = "C17"
LEVEL = "exploration"
RULE = ("Hypothesis builds literals by class (dq/sq string, none/bool in random case, rel/dot/node path text, "
        "lat/lon, 6 point forms, decimal int, 0x/bare hex int, decimal/exponent float, complex) and places them "
        "in init/put/set/inc/do with|per|cum data positions, need goals (basic and elapsed/recurred), need "
        "tolerance, bid period, timeout and repeat of generated scripts; expected value = reference converter "
        "following the documented order of the context; observed in shares after build / after a 2-tick run and "
        "in resolved act parms. Round trip: value -> literal text -> converter / init. non-trivial = literal that "
        "is not a plain decimal int; distinct = distinct (context, literal text)")
ASSUMPTIONS = [
    "documented order per context is taken from the Convert2* docstrings and parseDirect/parseNeedGoal/parseTolerance: "
    "do per|cum use parseDirect like with (same data order); hex is tried before float, so digit-only mantissa "
    "exponent forms such as 1e5 are hex ints (0x1e5) by the documented order",
    "bare hex words (abc, ff) are path text in data contexts (path precedes numbers) and hex ints in need goals / numbers",
    "lat/lon value = deg + min/60.0 computed in binary floating point exactly as documented (exact comparison)",
    "bid period = max(0.0, number) for real numbers; timeout goal = float(number) and repeat goal = int(number) for "
    "non-negative real literals; tolerance is stored as converted (its absolute value is applied at comparison time)",
    "float() and complex() of Python are trusted for the numeric value of float / complex literal text",
    "literal grammar excludes reserved connectives/comparisons, unicode digits, underscores in numbers, inf/nan words",
]
META = {
    "level": "exploration",
    "text": "Thousands of constructed literals per run are pushed through every literal context of real built (and "
            "briefly run) scripts and compared exactly (type and value) with a reference converter written from the "
            "documented conversion order; the literal grammar is sampled, not enumerated.",
    "note": "Trusts the harness reference converter (cross-checked against values known by construction) and Python's float/complex parsing.",
    "technique": "constructed literals with expected typed values (reference converter = differential) through real Builder contexts + round trip",
    "design_ref": "DESIGN.md section 3, C17",
}
HARD_CAP_S = {"quick": 600, "thorough": 3600}

# ------------------------------------------------------------------------------------------
# reference converter (from the docstrings; independent regexes for the documented forms)
NUM = r"[-+]?\d+(?:\.\d*)?"
R_LATLON_NE = re.compile(r"^(\d+)[NEne](\d+\.\d+)$")
R_LATLON_SW = re.compile(r"^(\d+)[SWsw](\d+\.\d+)$")
R_POINTS = [
    ("Pxy", "xy", re.compile(r"^(%s)[Xx](%s)[Yy]$" % (NUM, NUM))),
    ("Pne", "ne", re.compile(r"^(%s)[Nn](%s)[Ee]$" % (NUM, NUM))),
    ("Pfs", "fs", re.compile(r"^(%s)[Ff](%s)[Ss]$" % (NUM, NUM))),
    ("Pxyz", "xyz", re.compile(r"^(%s)[Xx](%s)[Yy](%s)[Zz]$" % (NUM, NUM, NUM))),
    ("Pned", "ned", re.compile(r"^(%s)[Nn](%s)[Ee](%s)[Dd]$" % (NUM, NUM, NUM))),
    ("Pfsb", "fsb", re.compile(r"^(%s)[Ff](%s)[Ss](%s)[Bb]$" % (NUM, NUM, NUM))),
]
IDENT = r"[a-zA-Z_]\w*"
R_PATH = re.compile(r"^(?:%s(?:\.%s)*\.?|(?:\.%s)+\.?)$" % (IDENT, IDENT, IDENT), re.ASCII)
INDIRECT = ("<indirect>",)      # marker: not a direct value in this context
INVALID = ("<invalid>",)        # marker: not convertible in this context


def ref_num(text):
    for conv in (lambda t: int(t, 10), lambda t: int(t, 16), float, complex):
        try:
            return conv(text)
        except ValueError:
            pass
    return INVALID


def ref_coord(text):
    m = R_LATLON_NE.match(text)
    if m:
        return float(m.group(1)) + float(m.group(2)) / 60.0
    m = R_LATLON_SW.match(text)
    if m:
        return -(float(m.group(1)) + float(m.group(2)) / 60.0)
    return None


def ref_quoted_none_bool(text):
    """(matched, value) for the leading part common to data and goal contexts"""
    if len(text) >= 2 and text[0] == '"' and text[-1] == '"' and '"' not in text[1:-1]:
        return True, text[1:-1]
    if len(text) >= 2 and text[0] == "'" and text[-1] == "'" and "'" not in text[1:-1]:
        return True, text[1:-1]
    low = text.lower()
    if low == "none":
        return True, None
    if low in ("true", "yes"):
        return True, True
    if low in ("false", "no"):
        return True, False
    return False, None


def ref_data(text):
    ok, v = ref_quoted_none_bool(text)
    if ok:
        return v
    if R_PATH.match(text):
        return text
    c = ref_coord(text)
    if c is not None:
        return c
    for name, fields, rx in R_POINTS:
        m = rx.match(text)
        if m:
            return ("point", name, tuple(float(g) for g in m.groups()))
    return ref_num(text)


def ref_goal(text):
    ok, v = ref_quoted_none_bool(text)
    if ok:
        return v
    c = ref_coord(text)
    if c is not None:
        return c
    n = ref_num(text)
    return INDIRECT if n is INVALID else n


def norm(v):
    """Observed ioflo value -> comparable form (points become ('point', type name, coords))."""
    if isinstance(v, tuple) and hasattr(v, "_fields"):
        return ("point", type(v).__name__, tuple(v))
    return v


def same(a, b):
    """exact agreement: same type, same value (floats also same sign of zero)"""
    if isinstance(a, tuple) and isinstance(b, tuple):
        return len(a) == len(b) and all(same(x, y) for x, y in zip(a, b))
    if type(a) is not type(b):
        return False
    if isinstance(a, float):
        return (a == b and math.copysign(1.0, a) == math.copysign(1.0, b)) or (a != a and b != b)
    if isinstance(a, complex):
        return same(a.real, b.real) and same(a.imag, b.imag)
    return a == b


def show(v):
    return "%s:%r" % (type(v).__name__, v)


# ------------------------------------------------------------------------------------------
# literal construction: strategies yield (class label, text, intended) ; intended is the value known by
# construction or NotImplemented when only the reference converter defines it
RESERVED = set(['to', 'by', 'with', 'from', 'per', 'for', 'cum', 'qua', 'via', 'as', 'at', 'in', 'of', 'on', 're',
                'is', 'if', 'be', 'into', 'and', 'not', '+-', '==', '<', '<=', '>=', '>', '!='])
BOOLWORDS = {"none": None, "true": True, "yes": True, "false": False, "no": False}
SAFE_CHARS = string.ascii_letters + string.digits + " _-+.,:;!?#%&*/()[]{}<>=@^~|$\\`"

digits = st.text("0123456789", min_size=1, max_size=6)
sign = st.sampled_from(["", "", "+", "-"])


def _ident():
    return st.builds(lambda a, b: a + b, st.sampled_from(list(string.ascii_letters + "_")),
                     st.text(string.ascii_letters + string.digits + "_", max_size=5))


def _decimal():      # point coordinate / plain decimal:  [-+]ddd[.ddd]
    return st.builds(lambda s, i, f: s + i + f, sign, digits,
                     st.one_of(st.just(""), st.just("."), st.builds(lambda d: "." + d, digits)))


def lit_dq():
    return st.text(SAFE_CHARS + "'", max_size=12).map(lambda c: ("dqstr", '"%s"' % c, c))


def lit_sq():
    return st.text(SAFE_CHARS + '"', max_size=12).map(lambda c: ("sqstr", "'%s'" % c, c))


def lit_bool():
    def case(word, mask):
        return "".join(ch.upper() if (mask >> i) & 1 else ch for i, ch in enumerate(word))
    return st.builds(lambda w, m: ("nonebool", case(w, m), BOOLWORDS[w]),
                     st.sampled_from(sorted(BOOLWORDS)), st.integers(0, 31))


def lit_path():
    rel = st.lists(_ident(), min_size=1, max_size=4).map(".".join)
    dot = st.lists(_ident(), min_size=1, max_size=4).map(lambda p: "." + ".".join(p))
    base = st.one_of(rel, dot)
    node = base.map(lambda p: p + ".")
    # an identifier spelled like none/true/yes/false/no (any case) is a bool/None by the documented order
    return st.one_of(base, base, node).filter(lambda p: p.lower() not in BOOLWORDS).map(lambda p: ("path", p, p))


def lit_latlon():
    def mk(deg, letter, mi, mf):
        text = "%s%s%s.%s" % (deg, letter, mi, mf)
        val = float(deg) + float("%s.%s" % (mi, mf)) / 60.0
        return ("latlon", text, val if letter in "NnEe" else -val)
    return st.builds(mk, st.text("0123456789", min_size=1, max_size=3), st.sampled_from("NnEeSsWw"),
                     st.text("0123456789", min_size=1, max_size=2), st.text("0123456789", min_size=1, max_size=4))


def lit_point():
    def mk(form, coords, upper):
        name, letters = form
        text = "".join(c + (l.upper() if upper else l) for c, l in zip(coords, letters))
        return ("point" + str(len(letters)), text, ("point", name, tuple(float(c) for c in coords)))
    forms = [("Pxy", "xy"), ("Pne", "ne"), ("Pfs", "fs"), ("Pxyz", "xyz"), ("Pned", "ned"), ("Pfsb", "fsb")]
    return st.sampled_from(forms).flatmap(
        lambda f: st.builds(mk, st.just(f), st.lists(_decimal(), min_size=len(f[1]), max_size=len(f[1])), st.booleans()))


def lit_int():
    return st.builds(lambda s, d: ("decint", s + d, int(d) * (-1 if s == "-" else 1)), sign, digits)


def lit_hex():
    hexd = st.text("0123456789abcdefABCDEF", min_size=1, max_size=6)

    def mk(s, pre, d):
        return ("hexint", s + pre + d, int(d, 16) * (-1 if s == "-" else 1))
    prefixed = st.builds(mk, sign, st.sampled_from(["0x", "0X"]), hexd)
    # bare hex: at least one letter so that it is not a decimal int; leading digit keeps it out of path syntax
    bare = st.builds(lambda s, a, l, b: ("hexint", s + a + l + b, int(a + l + b, 16) * (-1 if s == "-" else 1)),
                     sign, st.text("0123456789", min_size=1, max_size=2), st.sampled_from("abcdfABCDF"),
                     st.text("0123456789abcdfABCDF", max_size=3))
    return st.one_of(prefixed, bare)


def lit_hexword():   # bare hex letters: path text in data contexts, hex int in goals / numbers
    return st.text("abcdefABCDEF", min_size=1, max_size=5).filter(lambda t: t.lower() not in BOOLWORDS).map(
        lambda t: ("hexword", t, NotImplemented))


def lit_float():
    mant = st.one_of(st.builds(lambda i, f: i + "." + f, digits, digits),
                     st.builds(lambda i: i + ".", digits), st.builds(lambda f: "." + f, digits))
    exp = st.builds(lambda e, s, d: e + s + d, st.sampled_from("eE"), st.sampled_from(["", "+", "-"]),
                    st.integers(0, 30).map(str))
    plain = st.builds(lambda s, m: ("float", s + m, NotImplemented), sign, mant)
    withexp = st.builds(lambda s, m, e: ("floatexp", s + m + e, NotImplemented), sign, mant, exp)
    # digits e [sign] digits: with an explicit exponent sign it is a float; without one the documented order
    # (hex before float) makes it a hex int - both are generated, the reference converter decides
    intexp = st.builds(lambda s, i, e: ("intexp", s + i + e, NotImplemented), sign, digits, exp)
    return st.one_of(plain, withexp, intexp)


def lit_complex():
    part = st.one_of(digits, st.builds(lambda i, f: i + "." + f, digits, digits),
                     st.builds(lambda i, e: i + "e" + e, digits, st.integers(-9, 9).map(str)))
    pure = st.builds(lambda s, p: ("complex", s + p + "j", NotImplemented), sign, part)
    full = st.builds(lambda s, a, o, b, j: ("complex", s + a + o + b + j, NotImplemented),
                     sign, part, st.sampled_from("+-"), part, st.sampled_from("jJ"))
    return st.one_of(pure, full)


def _ok_token(lit):
    t = lit[1]
    return t not in RESERVED and t != ""


ANY_LIT = st.one_of(lit_dq(), lit_sq(), lit_bool(), lit_path(), lit_latlon(), lit_point(), lit_point(), lit_int(),
                    lit_hex(), lit_hexword(), lit_float(), lit_complex()).filter(_ok_token)
GOAL_LIT = st.one_of(lit_dq(), lit_sq(), lit_bool(), lit_latlon(), lit_int(), lit_hex(), lit_hexword(), lit_float(),
                     lit_complex(), st.lists(_ident(), min_size=2, max_size=3).map(
                         lambda p: ("dotpath", ".lit." + ".".join(p), NotImplemented))).filter(_ok_token)
NUM_LIT = st.one_of(lit_int(), lit_hex(), lit_hexword(), lit_float(), lit_complex()).filter(_ok_token)
REAL_LIT = st.one_of(lit_int(), lit_hex(), lit_hexword(), lit_float()).filter(_ok_token)
NONNEG_REAL = REAL_LIT.filter(lambda l: not l[1].startswith("-"))
NONNEG_INT = st.one_of(lit_int(), lit_hex()).filter(lambda l: not l[1].startswith("-"))
INC_LIT = st.one_of(lit_int(), lit_hex(), lit_float(), lit_complex(), lit_latlon())
# `do per` values name shares: keep them free of the relative addressing keywords so that resolving succeeds
_SPECIAL = set(["framer", "frame", "actor", "me", "main", "mine", "inode"])


def _plain_path(l):
    t = l[1]
    return (not t.endswith(".") and t.lower() not in BOOLWORDS and t not in RESERVED
            and not (set(t.strip(".").split(".")) & _SPECIAL))


PER_LIT = st.one_of(lit_path().filter(_plain_path),
                    lit_path().filter(_plain_path).map(lambda l: ("dqstr", '"%s"' % l[1], l[1])))


def _uniq(j, lit):
    """give the j-th `do per` path its own first segment so that the shares they name cannot collide"""
    cls, text, val = lit
    q = text[0] if text[0] in "\"'" else ""
    body = text.strip("\"'")
    body = (".u%d%s" % (j, body)) if body.startswith(".") else ("u%d.%s" % (j, body))
    return (cls, q + body + q, body)


def expected(text, family, intended):
    """reference value in the context family, cross-checked with the construction"""
    if family == "data":
        v = ref_data(text)
    elif family == "goal":
        v = ref_goal(text)
    else:
        v = ref_num(text)
    if intended is not NotImplemented and v not in (INDIRECT, INVALID):
        # the construction knows the value: the reference converter must agree, unless the documented order
        # legitimately reclassifies the text (path text in data contexts; hex-like words / numbers elsewhere)
        if not same(v, intended):
            reclass = (family == "data" and isinstance(v, str) and v == text) or \
                      (family != "data" and isinstance(intended, str) and intended == text)
            if not reclass:
                raise AssertionError("harness: reference converter %s disagrees with construction %s for %r in %s"
                                     % (show(v), show(intended), text, family))
    return v


# ------------------------------------------------------------------------------------------
# script cases
SCRIPT = st.fixed_dictionaries({
    "init1": st.lists(ANY_LIT, min_size=1, max_size=3),
    "initm": st.lists(ANY_LIT, min_size=2, max_size=3),
    "put1": st.lists(ANY_LIT, min_size=1, max_size=2),
    "putm": st.lists(ANY_LIT, min_size=2, max_size=3),
    "set1": st.lists(ANY_LIT, min_size=1, max_size=2),
    "setm": st.lists(ANY_LIT, min_size=2, max_size=2),
    "inc": st.lists(INC_LIT, min_size=1, max_size=2),
    "with": st.lists(ANY_LIT, min_size=1, max_size=3),
    "cum": st.lists(ANY_LIT, min_size=1, max_size=2),
    "per": st.lists(PER_LIT, min_size=1, max_size=2).map(lambda ls: [_uniq(j, l) for j, l in enumerate(ls)]),
    "goal": st.lists(GOAL_LIT, min_size=1, max_size=3),
    "egoal": st.lists(REAL_LIT, min_size=1, max_size=1),
    "tol": st.lists(NUM_LIT, min_size=1, max_size=2),
    "bid": st.lists(REAL_LIT, min_size=1, max_size=1),
    "timeout": NONNEG_REAL,
    "repeat": NONNEG_INT,
})


def lits_of(case):
    out = []
    for k in sorted(case):
        v = case[k]
        if v and isinstance(v[0], (list, tuple)):
            out += [(k, l) for l in v]
        else:
            out.append((k, v))
    return out


def render(case):
    """-> (script text, checks) ; checks = list of dicts describing where each literal is observed"""
    L = ["house lit", ""]
    checks = []

    def add(ctx, family, lit, where, **kw):
        d = {"ctx": ctx, "family": family, "cls": lit[0], "text": lit[1], "intended": lit[2], "where": where}
        d.update(kw)
        checks.append(d)

    for i, lit in enumerate(case["init1"]):
        L.append("init .i.s%d with %s" % (i, lit[1]))
        add("init", "data", lit, "share", path=".i.s%d" % i, field="value", when="build")
    line = "init .i.m with"
    for j, lit in enumerate(case["initm"]):
        line += " f%d %s" % (j, lit[1])
        add("init", "data", lit, "share", path=".i.m", field="f%d" % j, when="build")
    L.append(line)
    for i in range(len(case["inc"])):
        L.append("init .n.s%d with 0" % i)
    L += ["framer fr be active first a", "frame a"]
    for i, lit in enumerate(case["put1"]):
        cmd = "put %s into .p.s%d" % (lit[1], i)
        L.append(cmd)
        add("put", "data", lit, "share", path=".p.s%d" % i, field="value", when="run")
        add("put", "data", lit, "parm", human=cmd, parm="data", field="value")
    cmd = "put " + " ".join("f%d %s" % (j, lit[1]) for j, lit in enumerate(case["putm"])) + " into .p.m"
    L.append(cmd)
    for j, lit in enumerate(case["putm"]):
        add("put", "data", lit, "share", path=".p.m", field="f%d" % j, when="run")
    for i, lit in enumerate(case["set1"]):
        cmd = "set .g.s%d with %s" % (i, lit[1])
        L.append(cmd)
        add("set", "data", lit, "share", path=".g.s%d" % i, field="value", when="run")
        add("set", "data", lit, "parm", human=cmd, parm="data", field="value")
    cmd = "set .g.m with " + " ".join("f%d %s" % (j, lit[1]) for j, lit in enumerate(case["setm"]))
    L.append(cmd)
    for j, lit in enumerate(case["setm"]):
        add("set", "data", lit, "share", path=".g.m", field="f%d" % j, when="run")
    for i, lit in enumerate(case["inc"]):
        cmd = "inc .n.s%d with %s" % (i, lit[1])
        L.append(cmd)
        add("inc", "data", lit, "parm", human=cmd, parm="data", field="value")
        add("inc", "data", lit, "share", path=".n.s%d" % i, field="value", when="run", plus0=True)
    cmd = "do doer param at enter with " + " ".join("w%d %s" % (j, lit[1]) for j, lit in enumerate(case["with"]))
    cmd += " cum " + " ".join("c%d %s" % (j, lit[1]) for j, lit in enumerate(case["cum"]))
    cmd += " per " + " ".join("p%d %s" % (j, lit[1]) for j, lit in enumerate(case["per"]))
    L.append(cmd)
    for j, lit in enumerate(case["with"]):
        add("do with", "data", lit, "parm", human=cmd, parm=None, field="w%d" % j)
    for j, lit in enumerate(case["cum"]):
        add("do cum", "data", lit, "inits", human=cmd, field="c%d" % j)
    for j, lit in enumerate(case["per"]):
        add("do per", "data", lit, "ioinits", human=cmd, field="p%d" % j)
    cmd = "bid start fr at %s" % case["bid"][0][1]
    L.append(cmd)
    add("bid at", "bid", case["bid"][0], "parm", human=cmd, parm="period", field=None)
    tols = list(case["tol"])
    for i, lit in enumerate(case["goal"]):
        cmd = "go b if .q.s%d == %s" % (i, lit[1])
        if tols:
            t = tols.pop()
            cmd += " +- %s" % t[1]
            L.append(cmd)
            add("tolerance", "num", t, "need", human=cmd, need=0, parm="tolerance")
        else:
            L.append(cmd)
        add("need goal", "goal", lit, "need", human=cmd, need=0, parm="goal")
    lit = case["egoal"][0]
    cmd = "go b if elapsed >= %s" % lit[1]
    L.append(cmd)
    add("elapsed goal", "goal", lit, "need", human=cmd, need=0, parm="goal")
    cmd = "timeout %s" % case["timeout"][1]
    L.append(cmd)
    add("timeout", "timeout", case["timeout"], "need", human=cmd, need=0, parm="goal")
    cmd = "repeat %s" % case["repeat"][1]
    L.append(cmd)
    add("repeat", "repeat", case["repeat"], "need", human=cmd, need=0, parm="goal")
    L += ["frame b", "print done"]
    return "\n".join(L) + "\n", checks


def expect_for(chk):
    fam = chk["family"]
    text, intended = chk["text"], chk["intended"]
    if fam in ("data", "goal", "num"):
        return expected(text, fam, intended)
    v = expected(text, "num", intended)
    if fam == "bid":
        return max(0.0, v)
    if fam == "timeout":
        return float(v)
    if fam == "repeat":
        return int(v)
    raise AssertionError(fam)


def check_script(case):
    """Build (and run 2 ticks) the script of `case`; returns ([(sig, what)], checks)."""
    env.quiet_ioflo()
    from ioflo.base import storing
    text, checks = render(case)
    fails = []
    b = build_text(text, cpu_limit=20)
    if not b.ok:
        why = "%s: %s" % (type(b.exc).__name__, str(b.exc).strip()[:300]) if b.exc is not None else "build returned False"
        return [("build:%s" % b.outcome, "script of valid literals does not build (%s); script:\n%s" % (why, text))], checks
    house = b.houses[0]
    store = house.store
    framer = [f for f in house.framers if f.name == "fr"][0]
    frame = framer.frameNames["a"]
    acts = {}
    for lst in (frame.beacts, frame.enacts, frame.renacts, frame.reacts, frame.preacts, frame.exacts, frame.rexacts):
        for act in lst:
            acts.setdefault(getattr(act, "human", None), act)

    def fail(chk, exp, got, extra=""):
        sig = "%s:%s" % (chk["family"], chk["cls"])
        fails.append((sig, "literal %r (%s) in %s: expected %s by the documented order, observed %s%s"
                      % (chk["text"], chk["cls"], chk["ctx"], show(exp), show(got), extra)))

    def observe_share(chk):
        sh = store.fetchShare(chk["path"])
        if sh is None or chk["field"] not in sh:
            return False, None
        return True, norm(sh[chk["field"]])

    later = []
    for chk in checks:
        exp = expect_for(chk)
        chk["exp"] = exp
        if chk["where"] == "share":
            if chk["when"] == "run":
                later.append(chk)
                continue
            ok, got = observe_share(chk)
            if not ok:
                fail(chk, exp, "<missing>", " (share %s field %s missing after build)" % (chk["path"], chk["field"]))
            elif not same(got, exp):
                fail(chk, exp, got, " in share %s[%s] after build" % (chk["path"], chk["field"]))
            continue
        act = acts.get(chk["human"])
        if act is None:
            fails.append(("harness:act-not-found", "no act for %r" % chk["human"]))
            continue
        if chk["where"] == "need":
            try:
                need = act.parms["needs"][chk["need"]]
                got = need.parms[chk["parm"]]
            except Exception as ex:
                fails.append(("harness:need-parm", "%r: %r" % (chk["human"], ex)))
                continue
            if exp is INDIRECT:
                if not (isinstance(got, storing.Share) and "." + got.name == chk["text"]):
                    fail(chk, "indirect goal share " + chk["text"], got)
                continue
            got = norm(got)
        elif chk["where"] == "inits":
            got = norm((act.inits or {}).get(chk["field"], "<missing>"))
        elif chk["where"] == "ioinits":
            got = norm((act.ioinits or {}).get(chk["field"], "<missing>"))
        else:
            src = act.parms if chk["parm"] is None else act.parms.get(chk["parm"], {})
            got = norm(src.get(chk["field"], "<missing>")) if chk["field"] is not None else norm(src)
        if chk["family"] == "bid":
            # period = max(0.0, number): value compared numerically, type only when the literal wins the max
            v = expected(chk["text"], "num", chk["intended"])
            good = (got == exp) and (same(got, v) if v > 0 else True)
            if not good:
                fail(chk, exp, got)
        elif not same(got, exp):
            fail(chk, exp, got, " in %s of %r" % (chk["where"], chk["human"]))
    # tick-bounded run: frame a is entered at tick 0, its enter acts (put / set / inc) run once
    tb, exc = run_bounded(b.skedder, 2)
    for chk in later:
        exp = chk["exp"]
        if chk.get("plus0"):
            try:
                exp = 0 + exp
            except TypeError:
                continue
        ok, got = observe_share(chk)
        if not ok:
            fail(chk, exp, "<missing>", " (share %s field %s missing after run)" % (chk["path"], chk["field"]))
        elif not same(got, exp):
            fail(chk, exp, got, " in share %s[%s] after the run" % (chk["path"], chk["field"]))
    return fails, checks


def case_to_json(case):
    def enc(l):
        return [l[0], l[1], None if l[2] is NotImplemented else {"v": repr(l[2])}]
    out = {}
    for k, v in case.items():
        out[k] = [enc(l) for l in v] if (v and isinstance(v[0], (list, tuple))) else enc(v)
    return {"script": out}


def case_from_json(js):
    def dec(l):
        return (l[0], l[1], NotImplemented)      # replay relies on the reference converter only
    out = {}
    for k, v in js["script"].items():
        out[k] = [dec(l) for l in v] if (v and isinstance(v[0], list)) else dec(v)
    return out


# ------------------------------------------------------------------------------------------
# round trip family
def _fixed(n, k):
    s = "%d" % abs(n)
    if k:
        s = s.rjust(k + 1, "0")
        s = s[:-k] + "." + s[-k:]
    return ("-" if n < 0 else "") + s


RT_VALUE = st.one_of(
    st.integers(-10 ** 40, 10 ** 40).map(lambda v: ("int", repr(v), v)),
    st.floats(allow_nan=False, allow_infinity=False).map(lambda v: ("float", repr(v), v)),
    st.complex_numbers(allow_nan=False, allow_infinity=False).map(
        lambda v: ("complex", repr(v).strip("()"), v)),
    st.booleans().map(lambda v: ("bool", repr(v), v)),
    st.just(("none", "None", None)),
    st.text(SAFE_CHARS, max_size=16).map(lambda s: ("string", '"%s"' % s, s)),
    st.sampled_from([("Pxy", "xy"), ("Pne", "ne"), ("Pfs", "fs"), ("Pxyz", "xyz"), ("Pned", "ned"), ("Pfsb", "fsb")]).flatmap(
        lambda f: st.lists(st.tuples(st.integers(-10 ** 9, 10 ** 9), st.integers(0, 6)),
                           min_size=len(f[1]), max_size=len(f[1])).map(
            lambda cs, f=f: ("point", "".join(_fixed(n, k) + l for (n, k), l in zip(cs, f[1])),
                             ("point", f[0], tuple(float(_fixed(n, k)) for n, k in cs))))),
)


def check_roundtrip(items, through_init):
    """items: [(kind, text, value)]"""
    env.quiet_ioflo()
    from ioflo.base import building
    fails = []
    for kind, text, value in items:
        try:
            got = norm(building.Convert2StrBoolPathCoordPointNum(text))
        except Exception as ex:
            fails.append(("roundtrip:%s:raises" % kind, "literal form %r of %s does not convert back: %r" % (text, show(value), ex)))
            continue
        if not same(got, value):
            fails.append(("roundtrip:%s" % kind, "literal form %r of %s converts back to %s" % (text, show(value), show(got))))
    if through_init:
        L = ["house rt"]
        for i, (kind, text, value) in enumerate(items):
            L.append("init .r.v%d with %s" % (i, text))
        b = build_text("\n".join(L) + "\n", cpu_limit=20)
        if not b.ok:
            why = "%s: %s" % (type(b.exc).__name__, str(b.exc).strip()[:200]) if b.exc is not None else "False"
            fails.append(("roundtrip:init-build", "init script of literal forms does not build (%s): %r" % (why, [t for _, t, _ in items])))
        else:
            store = b.houses[0].store
            for i, (kind, text, value) in enumerate(items):
                sh = store.fetchShare(".r.v%d" % i)
                got = norm(sh["value"]) if sh is not None and "value" in sh else "<missing>"
                if not same(got, value):
                    fails.append(("roundtrip:%s:init" % kind, "init with literal form %r of %s stores %s" % (text, show(value), show(got))))
    return fails


# ------------------------------------------------------------------------------------------
def plan(tier):
    if tier == "quick":
        return [{"part": "script", "i": i, "n": 300} for i in range(6)] + [{"part": "rt", "i": 6 + i, "n": 800} for i in range(2)]
    return [{"part": "script", "i": i, "n": 4000} for i in range(14)] + [{"part": "rt", "i": 14 + i, "n": 20000} for i in range(2)]


def work(shard, seed, tier):
    acc = Acc()
    budget = Budget(300 if tier == "quick" else 1800)
    if shard["part"] == "script":
        def execute(case):
            fails, checks = check_script(case)
            seen = set()
            for chk in checks:
                key = (chk["ctx"], chk["text"])
                if key in seen:
                    continue
                seen.add(key)
                nt = not re.match(r"^\d+$", chk["text"])
                acc.case(key=key, nontrivial=nt, classes=["ctx:" + chk["ctx"], "cls:" + chk["cls"]],
                         sample={"ctx": chk["ctx"], "literal": chk["text"], "expected": show(chk.get("exp"))}
                         if len(acc.samples) < 5 else None)
            return Outcome(fails, nontrivial=False, classes=["scripts"], key=None, sample=None)

        # the campaign's own acc.case call per script is recorded as class "scripts" (not non-trivial); the
        # literals are recorded individually above
        campaign(acc, SCRIPT, execute, shard["n"], seed * 1000 + shard["i"], to_case=case_to_json,
                 budget=budget, shrink=False)     # every failure already names its literal and context
        acc.extra["scripts"] = shard["n"]
        return acc

    strat = st.lists(RT_VALUE, min_size=8, max_size=8)

    def execute_rt(items):
        fails = check_roundtrip(items, through_init=True)
        for kind, text, value in items:
            acc.case(key=("roundtrip", text), nontrivial=not re.match(r"^\d+$", text),
                     classes=["ctx:roundtrip", "rt:" + kind], sample={"roundtrip": text} if len(acc.samples) < 5 else None)
        return Outcome(fails, nontrivial=False, classes=["rt-batches"], key=None, sample=None)

    campaign(acc, strat, execute_rt, shard["n"], seed * 1000 + shard["i"],
             to_case=lambda items: {"roundtrip": [[k, t] for k, t, v in items]}, budget=budget,
             shrink=False)
    return acc


def _rt_value(kind, text):
    """recompute the value a literal form stands for (replay): python's own evaluation of the form"""
    if kind == "int":
        return int(text)
    if kind == "float":
        return float(text)
    if kind == "complex":
        return complex(text)
    if kind == "bool":
        return text == "True"
    if kind == "none":
        return None
    if kind == "string":
        return text[1:-1]
    return ref_data(text)


def replay(case):
    if "script" in case:
        return check_script(case_from_json(case))[0]
    items = [(k, t, _rt_value(k, t)) for k, t in case["roundtrip"]]
    return check_roundtrip(items, through_init=True)
