"""C15 Optional clauses of a command may appear in any order.

Generator (vp.flo.metagen): for each verb with a documented clause set - framer
(be/at/first/via/in), frame (in/via), do (as/at/via/with/from/per/for/cum/qua), logger
(to/at/be/in/flush/keep/cycle/size/reuse), log (to/as/on), server (at/to/be/in/rx/tx/per/for),
aux (as/via before its trailing `if`, which stays last), rear (as/be/in frame name), raze (its
single clause, trivial) and the marker needs (`in frame [name]`/`by marker`) - one command
with a random subset of clauses (distinct keys) inside a minimal valid script, built for ALL
permutations of the clauses (<= 120; above that identity + reverse + 118 permutations drawn
from a generated seed).
One case in four carries exactly ONE defective clause whose value is invalid in itself
(bad option, non-number, invalid path / name, dangling frame), never a missing value (what a
missing value swallows legitimately depends on what follows).

Oracle (metamorphic): the canonical structure dump (vp.flo.dump) of the built houses is
identical for every permutation, or every permutation fails with the same outcome class
(ParseError / ResolveError->False / ValueError).
"""
import itertools
import json

from hypothesis import strategies as st

from vp.core.acc import Acc
from vp.core.hyp import campaign, Outcome, Budget
from vp.flo import metagen

PROPERTY = "C15"
LEVEL = "exploration"
RULE = ("Hypothesis-generated commands of the verbs framer, frame, do, logger, log, server, aux, rear, raze "
        "and marker needs, each with a random subset of its documented optional clauses (distinct keys, "
        "generated values incl. relative/absolute inodes with `of` relations, direct data lists, field "
        "lists) in a minimal valid script; every permutation of the clauses is built (all n! for n <= 5, "
        "120 sampled above) and the structure dumps / outcome classes compared; 1 case in 4 has exactly "
        "one clause with an invalid value. non-trivial = at least min(3, size of the verb's clause set) "
        "clauses and >= 2 permutations built; distinct = distinct (scaffold, clause set) text")
ASSUMPTIONS = [
    "the structure dump (vp.flo.dump) captures 'same structure and identically configured actions': "
    "taskers with class/period/schedule/order lists, frames with links, acts per context with actor class, "
    "actor name, inits, ioinits, prerefs, resolved parms (shares as paths), logs/loggees, store paths+values; "
    "act.human / act.count (command text, line number) are not part of the structure",
    "clause sets are taken from the build<Verb> docstrings plus the clauses the parser accepts in the same "
    "connective loop (framer `in order`, logger `in order`/`reuse`)",
    "rear is generated in its documented form `in frame framename` (name present); raze has one optional "
    "clause so nothing is permuted",
    "a defective clause is one whose own value is invalid; missing values are not generated because their "
    "effect legitimately depends on the following word; defective data after with/per/cum is not generated "
    "(runs into the '%'-format TypeError of parseDirect, which belongs to C14)",
    "in defective cases a permutation that ends in an internal error (not ParseError/ResolveError/ValueError) "
    "is counted (class defect-internal-error) but not compared: that is property C14's verdict",
    "dict-like keyword containers (parms/inits/ioinits) are compared without regard to key order",
]
META = {
    "level": "exploration",
    "text": "Every documented clause set is exercised with generated values and complete permutation sets "
            "(sampled only above 120 orders), and compared through a full structure dump of the built house, so "
            "a clause that swallows or mis-terminates on any neighbouring clause changes the dump or the outcome "
            "class. Absence is shown for the generated commands only.",
    "note": "Trusts the harness structure dump as the definition of 'same house'; clause values come from fixed "
            "pools, not from the whole literal grammar (C17 covers literals).",
    "technique": "Hypothesis-generated commands x exhaustive clause permutations, metamorphic comparison of structure dumps",
    "design_ref": "DESIGN.md section 3, C15",
}

MAX_PERMS = 120
SCRIPT_ERRORS = ("ParseError", "ResolveError", "ValueError", "False")
KEYSET_SIZE = {"framer": 5, "frame": 2, "do": 9, "logger": 9, "log": 3, "server": 8, "aux": 2,
               "rear": 3, "raze": 1, "marker": 2}
VERB_WEIGHTS = [("do", 6), ("framer", 3), ("logger", 3), ("server", 3), ("frame", 1), ("log", 2),
                ("aux", 2), ("rear", 1), ("marker", 2), ("raze", 1)]


@st.composite
def command_case(draw, verbs=None):
    pool = []
    for v, w in VERB_WEIGHTS:
        if verbs is None or v in verbs:
            pool += [v] * w
    verb = draw(st.sampled_from(pool))
    case = draw(metagen.COMMANDS[verb]())
    n = len(case["clauses"])
    total = 1
    for i in range(2, n + 1):
        total *= i
    # above MAX_PERMS orders a sample is used; it is a pure function of the drawn perm_seed so
    # the saved case replays exactly
    case["perm_seed"] = draw(st.integers(0, 2 ** 32 - 1)) if total > MAX_PERMS else None
    return case


def case_perms(case):
    n = len(case["clauses"])
    if case.get("perm_seed") is None:
        return [list(p) for p in itertools.permutations(range(n))]
    import random
    rnd = random.Random(case["perm_seed"])
    ident = list(range(n))
    perms = [ident, ident[::-1]]
    seen = {tuple(ident), tuple(ident[::-1])}
    # rotations: every clause first / last, every adjacent pair of the drawn base order
    tries = 0
    while len(perms) < MAX_PERMS and tries < 10 * MAX_PERMS:
        tries += 1
        p = ident[:]
        rnd.shuffle(p)
        if tuple(p) not in seen:
            seen.add(tuple(p))
            perms.append(p)
    return perms


def build_outcome(text):
    """-> (outcome class string, dump json string or None, exception text)"""
    from vp.flo.build import build_text
    from vp.flo import dump
    b = build_text(text, cpu_limit=20)
    if b.ok and b.exc is None:
        return "ok", json.dumps(dump.dump_houses(b.houses), sort_keys=True, default=repr), ""
    return b.outcome, None, (str(b.exc)[:200] if b.exc is not None else "build returned False")


def _adjacent(order):
    return {(order[i], order[i + 1]) for i in range(len(order) - 1)}


def _before(order):
    return {(order[i], order[j]) for i in range(len(order)) for j in range(i + 1, len(order))}


def explain(case, perms, groups, major, minor):
    """Find the clause pair that separates the minority group from the majority group."""
    keys = [c[0] for c in case["clauses"]]
    maj = [perms[i] for i in groups[major]]
    mino = [perms[i] for i in groups[minor]]
    for rel, name in ((_adjacent, "directly followed by"), (_before, "before")):
        common = set.intersection(*[rel(p) for p in mino]) if mino else set()
        for p in maj:
            common -= rel(p)
        if common:
            a, b = sorted(common)[0]
            return "+".join(sorted((keys[a], keys[b]))), "clause `%s` %s clause `%s`" % (
                case["clauses"][a][1], name, case["clauses"][b][1])
    # pairwise sub-commands
    n = len(keys)
    for a in range(n):
        for b in range(a + 1, n):
            sub = dict(case, clauses=[case["clauses"][a], case["clauses"][b]], perm_seed=None)
            o1 = build_outcome(metagen.render_command(sub, [0, 1]))
            o2 = build_outcome(metagen.render_command(sub, [1, 0]))
            if o1[:2] != o2[:2]:
                return "+".join(sorted((keys[a], keys[b]))), "clauses `%s` and `%s` alone depend on their order" % (
                    case["clauses"][a][1], case["clauses"][b][1])
    return "multi", "no single clause pair explains it"


def run_case(case):
    """-> (failures [(sig, what)], info dict)"""
    from vp.flo import dump
    perms = case_perms(case)
    outs = [build_outcome(metagen.render_command(case, p)) for p in perms]
    groups = {}
    for i, o in enumerate(outs):
        groups.setdefault((o[0], o[1]), []).append(i)
    info = {"perms": len(perms), "outcomes": sorted({o[0] for o in outs}), "groups": len(groups)}
    fails = []
    classes = {o[0] for o in outs}
    internal = [c for c in classes if c != "ok" and c not in SCRIPT_ERRORS]
    if case.get("defect") is not None and internal:
        info["skipped"] = "defect-internal-error"
        return fails, info
    if len(groups) > 1:
        # majority group = reference; ties broken in favour of the group holding the first permutation
        order = sorted(groups, key=lambda g: (-len(groups[g]), groups[g][0]))
        major = order[0]
        for minor in order[1:]:
            pair, why = explain(case, perms, groups, major, minor)
            i, j = groups[major][0], groups[minor][0]
            if major[0] == "ok" and minor[0] == "ok":
                diff = dump.first_diff(json.loads(major[1]), json.loads(minor[1]))
                kind = "dump"
            else:
                diff = "outcome %s (%s) vs %s (%s)" % (outs[i][0], outs[i][2], outs[j][0], outs[j][2])
                kind = "outcome"
            line_i = metagen.render_command(case, perms[i]).split("\n")[len(case["pre"])].strip()
            line_j = metagen.render_command(case, perms[j]).split("\n")[len(case["pre"])].strip()
            sig = "order:%s:%s" % (case["verb"], pair)
            what = ("%d of %d clause orders differ (%s) from the other %d: `%s` vs `%s`: %s [%s]"
                    % (len(groups[minor]), len(perms), kind, len(groups[major]), line_j, line_i, diff, why))
            fails.append((sig, what))
    return fails, info


def execute(case):
    fails, info = run_case(case)
    n = len(case["clauses"])
    verb = case["verb"]
    nontrivial = n >= min(3, KEYSET_SIZE[verb]) and info["perms"] >= 2
    classes = ["verb:" + verb, "clauses:%d" % n,
               "defect" if case.get("defect") else "valid",
               "perms:all" if case.get("perm_seed") is None else "perms:sampled"]
    # clauses that end in an optional word (`of frame [name]`, `of framer [name]`, `of actor [name]`,
    # `in frame [name]`) are the ones a following clause keyword can be absorbed into
    if any(c[1].split()[-2:] in (["of", "frame"], ["of", "framer"], ["of", "actor"], ["in", "frame"])
           for c in case["clauses"]):
        classes.append("open-ended-clause")
    for o in info["outcomes"]:
        classes.append(("defect->" if case.get("defect") else "valid->") + o)
    if info.get("skipped"):
        classes.append(info["skipped"])
    key = [verb, case["pre"], case["head"], sorted(c[1] for c in case["clauses"]), case["tail"]]
    sample = {"verb": verb, "command": metagen.render_command(case).split("\n")[len(case["pre"])].strip(),
              "perms": info["perms"], "outcomes": info["outcomes"]}
    return Outcome(fails, nontrivial=nontrivial, classes=classes, key=key, sample=sample)


def plan(tier):
    n = 8 if tier == "quick" else 32
    return [{"i": i} for i in range(n)]


def work(shard, seed, tier):
    acc = Acc()
    n = 40 if tier == "quick" else 320
    campaign(acc, command_case(), execute, n, seed * 1000 + shard["i"],
             budget=Budget(240 if tier == "quick" else 1500), shrink_examples=60)
    return acc


def replay(case):
    fails, info = run_case(case)
    return fails
