"""C41 CRC helpers compute CRC-16/GENIBUS and CRC-64/WE.

Generator: every byte string of length <= 2 (exhaustive, 65 793 strings) + Hypothesis
random strings up to 1 KiB (biased to short, long runs of 0x00/0xff, and the catalogue
string). Oracle: independent table-driven MSB-first CRCs built in the harness from the
polynomials, themselves anchored on the catalogue check values for b"123456789".
"""
import struct

from hypothesis import strategies as st

from vp.core.acc import Acc
from vp.core.hyp import campaign, Outcome, Budget

PROPERTY = "C41"
LEVEL = "exploration"
RULE = ("exhaustive enumeration of all byte strings of length 0..2 plus Hypothesis-generated "
        "strings up to 1 KiB; oracle = harness table-driven CRC-16/GENIBUS and CRC-64/WE "
        "(anchored on the catalogue check values of b'123456789'); non-trivial = length >= 2; "
        "distinct = distinct byte string")
ASSUMPTIONS = ["catalogue check values 0xD64E (CRC-16/GENIBUS) and 0x62EC59E3F1A4F00A (CRC-64/WE) are correct",
               "crc16 returns struct.pack('!H', crc); crc64 returns (high32, low32) as documented"]
META = {
    "level": "exploration",
    "text": "All inputs of length <= 2 are enumerated exhaustively and tens of thousands of random longer "
            "strings are compared with an independent table-driven reference; CRCs are linear so short "
            "exhaustive + random long inputs exercise every bit path of the bitwise loops.",
    "note": "Trusts the harness reference CRC (anchored on published check values). Absence is shown only on the explored inputs.",
    "technique": "exhaustive enumeration + Hypothesis random inputs vs independent reference implementation (differential)",
    "design_ref": "DESIGN.md section 3, C41",
}


def _table(poly, width):
    top = 1 << (width - 1)
    mask = (1 << width) - 1
    tab = []
    for b in range(256):
        r = b << (width - 8)
        for _ in range(8):
            r = ((r << 1) ^ poly) if (r & top) else (r << 1)
            r &= mask
        tab.append(r)
    return tab


T16 = _table(0x1021, 16)
T64 = _table(0x42F0E1EBA9EA3693, 64)


def ref16(data):
    crc = 0xFFFF
    for b in data:
        crc = ((crc << 8) & 0xFFFF) ^ T16[((crc >> 8) ^ b) & 0xFF]
    return crc ^ 0xFFFF


def ref64(data):
    crc = 0xFFFFFFFFFFFFFFFF
    for b in data:
        crc = ((crc << 8) & 0xFFFFFFFFFFFFFFFF) ^ T64[((crc >> 56) ^ b) & 0xFF]
    return crc ^ 0xFFFFFFFFFFFFFFFF


assert ref16(b"123456789") == 0xD64E
assert ref64(b"123456789") == 0x62EC59E3F1A4F00A


def check_one(data):
    from ioflo.aid import checking
    fails = []
    try:
        got = checking.crc16(data)
        exp = struct.pack("!H", ref16(data))
        if got != exp:
            fails.append(("crc16-mismatch", "crc16(%r) = %r, CRC-16/GENIBUS = %r" % (data, got, exp)))
    except Exception as ex:
        fails.append(("crc16-raises-%s" % type(ex).__name__, "crc16(%r) raised %r" % (data, ex)))
    try:
        got = checking.crc64(data)
        r = ref64(data)
        exp = (r >> 32, r & 0xFFFFFFFF)
        if tuple(got) != exp:
            fails.append(("crc64-mismatch", "crc64(%r) = %r, CRC-64/WE halves = %r" % (data, got, exp)))
    except Exception as ex:
        fails.append(("crc64-raises-%s" % type(ex).__name__, "crc64(%r) raised %r" % (data, ex)))
    return fails


def plan(tier):
    shards = [{"part": "exh", "i": i, "n": 8} for i in range(8)]
    nrand = 4 if tier == "quick" else 16
    shards += [{"part": "rand", "i": i, "n": nrand} for i in range(nrand)]
    return shards


def work(shard, seed, tier):
    acc = Acc()
    if shard["part"] == "exh":
        i, n = shard["i"], shard["n"]
        todo = []
        if i == 0:
            todo.append(b"")
            todo.extend(bytes([a]) for a in range(256))
        for a in range(i, 256, n):
            todo.extend(bytes([a, b]) for b in range(256))
        for data in todo:
            fails = check_one(data)
            acc.case(key=data, nontrivial=len(data) >= 2, classes=["len%d" % len(data)],
                     sample={"data": data} if data in (b"", b"\x00", b"\x80\x01", b"\xff\xff") else None)
            for sig, what in fails:
                acc.fail(sig, what, {"data": data})
        acc.exhaustive = True
        acc.note("all byte strings of length <= 2 enumerated")
        return acc
    n = 500 if tier == "quick" else 5000
    strat = st.one_of(
        st.binary(min_size=3, max_size=16),
        st.binary(min_size=3, max_size=1024),
        st.builds(lambda b, k, t: bytes([b]) * k + t, st.sampled_from([0, 0xFF, 0x80, 0x01]),
                  st.integers(1, 600), st.binary(max_size=4)),
        st.builds(lambda p, s: p + b"123456789" + s, st.binary(max_size=3), st.binary(max_size=3)),
    )

    def execute(data):
        fails = check_one(data)
        cls = "len<=16" if len(data) <= 16 else ("len<=128" if len(data) <= 128 else "len<=1024")
        return Outcome(fails, nontrivial=len(data) >= 2, classes=[cls], key=data, sample={"data": data[:24]})

    campaign(acc, strat, execute, n, seed * 1000 + shard["i"], to_case=lambda d: {"data": d},
             budget=Budget(120 if tier == "quick" else 900))
    return acc


def replay(case):
    return check_one(case["data"])
