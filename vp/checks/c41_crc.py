"""C41 CRC helpers compute CRC-16/GENIBUS and CRC-64/WE.

Generator: every byte string of length <= 2 (exhaustive, 65 793 strings) + Hypothesis
random strings up to 1 KiB (biased to short, long runs of 0x00/0xff, and the catalogue
string). Oracle: independent table-driven MSB-first CRCs built in the harness from the
polynomials, themselves anchored on the catalogue check values for b"123456789".
"""
import struct

from hypothesis import strategies as st

from vp.core.acc import Acc
from vp.core.hyp import campaign, Outcome, Budget

PROPERTY = "C41"
LEVEL = "exploration"
RULE = ("exhaustive enumeration of all byte strings of length 0..2 plus Hypothesis-generated "
        "strings up to 1 KiB; oracle = harness table-driven CRC-16/GENIBUS and CRC-64/WE "
        "(anchored on the catalogue check values of b'123456789'); non-trivial = length >= 2; "
        "distinct = distinct byte string")
ASSUMPTIONS = ["catalogue check values 0xD64E (CRC-16/GENIBUS) and 0x62EC59E3F1A4F00A (CRC-64/WE) are correct",
               "crc16 returns struct.pack('!H', crc); crc64 returns (high32, low32) as documented"]
META = {
    "level": "exploration",
    "text": "All inputs of length <= 2 are enumerated exhaustively and tens of thousands of random longer "
            "strings are compared with an independent table-driven reference; CRCs are linear so short "
            "exhaustive + random long inputs exercise every bit path of the bitwise loops.",
    "note": "Trusts the harness reference CRC (anchored on published check values). Absence is shown only on the explored inputs.",
    "technique": "exhaustive enumeration + Hypothesis random inputs vs independent reference implementation (differential)",
    "design_ref": "DESIGN.md section 3, C41",
}


def _table(poly, width):
    top = 1 << (width - 1)
    mask = (1 << width) - 1
    tab = []
    for b in range(256):
        r = b << (width - 8)
        for _ in range(8):
            r = ((r << 1) ^ poly) if (r & top) else (r << 1)
            r &= mask
        tab.append(r)
    return tab


T16 = _table(0x1021, 16)
T64 = _table(0x42F0E1EBA9EA3693, 64)


def ref16(data):
    crc = 0xFFFF
    for b in data:
        crc = ((crc << 8) & 0xFFFF) ^ T16[((crc >> 8) ^ b) & 0xFF]
    return crc ^ 0xFFFF


def ref64(data):
    crc = 0xFFFFFFFFFFFFFFFF
    for b in data:
        crc = ((crc << 8) & 0xFFFFFFFFFFFFFFFF) ^ T64[((crc >> 56) ^ b) & 0xFF]
    return crc ^ 0xFFFFFFFFFFFFFFFF


assert ref16(b"123456789") == 0xD64E
assert ref64(b"123456789") == 0x62EC59E3F1A4F00A


def cancelling(prefix, k, width):
    """prefix + k octets that each equal the top octet of the running register (table index 0: the register just
    shifts), so that afterwards the k low octets of the register are zero - k = width/8 empties it, k = 4 of 8
    empties the low half of the 64 bit register. Reaches the register states that random data practically never does."""
    if width == 16:
        crc, tab, top, mask = 0xFFFF, T16, 8, 0xFFFF
    else:
        crc, tab, top, mask = 0xFFFFFFFFFFFFFFFF, T64, 56, 0xFFFFFFFFFFFFFFFF
    for b in prefix:
        crc = ((crc << 8) & mask) ^ tab[((crc >> top) ^ b) & 0xFF]
    out = bytearray(prefix)
    for _ in range(k):
        b = (crc >> top) & 0xFF
        out.append(b)
        crc = ((crc << 8) & mask) ^ tab[0]
    return bytes(out)


RUN_BYTES = [0x00, 0xFF, 0x01, 0x80]


def check_one(data):
    from ioflo.aid import checking
    fails = []
    try:
        got = checking.crc16(data)
        exp = struct.pack("!H", ref16(data))
        if got != exp:
            fails.append(("crc16-mismatch", "crc16(%r) = %r, CRC-16/GENIBUS = %r" % (data, got, exp)))
    except Exception as ex:
        fails.append(("crc16-raises-%s" % type(ex).__name__, "crc16(%r) raised %r" % (data, ex)))
    try:
        got = checking.crc64(data)
        r = ref64(data)
        exp = (r >> 32, r & 0xFFFFFFFF)
        if tuple(got) != exp:
            fails.append(("crc64-mismatch", "crc64(%r) = %r, CRC-64/WE halves = %r" % (data, got, exp)))
    except Exception as ex:
        fails.append(("crc64-raises-%s" % type(ex).__name__, "crc64(%r) raised %r" % (data, ex)))
    return fails


def plan(tier):
    shards = [{"part": "exh", "i": i, "n": 8} for i in range(8)]
    nrand = 4 if tier == "quick" else 16
    shards += [{"part": "rand", "i": i, "n": nrand} for i in range(nrand)]
    shards += [{"part": "runs", "i": i, "n": 4} for i in range(4)]
    return shards


def work(shard, seed, tier):
    acc = Acc()
    if shard["part"] == "exh":
        i, n = shard["i"], shard["n"]
        todo = []
        if i == 0:
            todo.append(b"")
            todo.extend(bytes([a]) for a in range(256))
        for a in range(i, 256, n):
            todo.extend(bytes([a, b]) for b in range(256))
        for data in todo:
            fails = check_one(data)
            acc.case(key=data, nontrivial=len(data) >= 2, classes=["len%d" % len(data)],
                     sample={"data": data} if data in (b"", b"\x00", b"\x80\x01", b"\xff\xff") else None)
            for sig, what in fails:
                acc.fail(sig, what, {"data": data})
        acc.exhaustive = True
        acc.note("all byte strings of length <= 2 enumerated")
        return acc
    if shard["part"] == "runs":
        # every sequence of up to three runs (octet from 00 FF 01 80, length 1-9), and every self-cancelling input
        # (short prefix, then 1-8 octets that empty the register from below, then 0-3 zero octets and a tail octet)
        runs = [bytes([b]) * k for b in RUN_BYTES for k in range(1, 10)]
        todo = list(runs)
        todo += [a + b for a in runs for b in runs]
        todo += [a + b + c for a in runs[shard["i"]::shard["n"]] for b in runs for c in runs]
        if shard["i"] == 0:
            for prefix in [b"", b"\x00", b"\xff", b"a", b"12", b"\x00\x00\x00", b"\x80\x01\xfe"]:
                for width in (16, 64):
                    for k in range(1, width // 8 + 1):
                        base = cancelling(prefix, k, width)
                        for z in range(4):
                            for tail in (b"", b"\x00", b"\x01", b"\xff", b"z"):
                                todo.append(base + b"\x00" * z + tail)
        for data in todo:
            fails = check_one(data)
            acc.case(key=data, nontrivial=True, classes=["runs/cancelling"],
                     sample={"data": data} if len(acc.samples) < 3 else None)
            for sig, what in fails:
                acc.fail(sig, what, {"data": data})
        acc.note("run sequences (<= 3 runs of 00/FF/01/80, lengths 1-9) and self-cancelling inputs enumerated")
        return acc
    n = 500 if tier == "quick" else 5000
    strat = st.one_of(
        st.builds(lambda p, w, k, z, t: cancelling(p, min(k, w // 8), w) + b"\x00" * z + t, st.binary(max_size=12),
                  st.sampled_from([16, 64, 64]), st.integers(1, 8), st.integers(0, 5), st.binary(max_size=6)),
        st.binary(min_size=3, max_size=16),
        st.binary(min_size=3, max_size=1024),
        st.builds(lambda b, k, t: bytes([b]) * k + t, st.sampled_from([0, 0xFF, 0x80, 0x01]),
                  st.integers(1, 600), st.binary(max_size=4)),
        st.builds(lambda p, s: p + b"123456789" + s, st.binary(max_size=3), st.binary(max_size=3)),
    )

    def execute(data):
        fails = check_one(data)
        cls = "len<=16" if len(data) <= 16 else ("len<=128" if len(data) <= 128 else "len<=1024")
        return Outcome(fails, nontrivial=len(data) >= 2, classes=[cls], key=data, sample={"data": data[:24]})

    campaign(acc, strat, execute, n, seed * 1000 + shard["i"], to_case=lambda d: {"data": d},
             budget=Budget(120 if tier == "quick" else 900))
    return acc


def replay(case):
    return check_one(case["data"])
