"""C29 HTTP messages parse the same however their bytes arrive.

Generator (vp.net.httpgen): well-formed HTTP/1.x requests and responses constructed
together with their ground truth (start line, header list with none/SP/2SP/HTAB after the
colon, body fixed-length / chunked with hex sizes in either case, extensions and trailers /
until-close for responses / bodiless 204-304-HEAD / 100-continue interim responses),
followed by the first bytes of a next message. Messages of <= 64 bytes are parsed under
EVERY split into <= 3 successive pieces (empty pieces = a service round without new bytes);
longer ones under every single cut plus Hypothesis-drawn splits of up to 8 pieces biased to
structural offsets (inside CRLFs, chunk-size lines, header names, separators).

Both parsers are driven directly: a fresh serving.Requestant / clienting.Respondent over a
bytearray that is extended piece by piece with .parse() after every piece (and .close() at
the end for until-close responses).

Oracle: whole parse == ground truth (start line, headers case-insensitively, body,
trailers, chunk parameters, leftover bytes untouched) and every split parse == whole parse
on all observable parser fields.
"""
import re
import traceback

from hypothesis import strategies as st

from vp.core.acc import Acc
from vp.core.hyp import campaign, Outcome, Budget
from vp.net import httpgen

PROPERTY = "C29"
LEVEL = "exploration"
RULE = ("Hypothesis-constructed well-formed HTTP/1.x requests and responses with ground truth "
        "(vp.net.httpgen.message); messages <= 64 bytes under EVERY split into <= 3 pieces "
        "(exhaustive per message), longer ones under every single cut + 12 drawn splits of up to 8 "
        "pieces biased to structural offsets; both Requestant and Respondent; oracle = ground truth "
        "for the whole parse + equality of every split parse with the whole parse. "
        "non-trivial = chunked body, or some split cuts strictly inside a CRLF / chunk-size line / "
        "header name / start line; distinct = distinct (wire bytes, leftover, split set)")
ASSUMPTIONS = [
    "only well-formed HTTP/1.x is generated: CRLF line ends, unique header names, token names, "
    "field values without leading/trailing whitespace, methods from httping.METHODS, HTTP/1.0 and HTTP/1.1",
    "duplicate header names, obsolete line folding, bare-LF line ends, Transfer-Encoding on HEAD/304 "
    "responses and quoted chunk-extension values containing ';' are outside the generated domain "
    "(nothing documents what the parsers do with them)",
    "request path is compared percent-decoded (utf-8) and the query raw, as the Requestant attribute "
    "comments state; chunk-extension values are compared after removing surrounding double quotes and "
    "irrespective of bytes/str type",
    "an until-close response is complete when .close() has been called on the parser (what "
    "Patron.serviceAll does on cutoff)",
    "calling .parse() more often than bytes arrive is allowed (service loops do)",
]
META = {
    "level": LEVEL,
    "text": "Thousands of constructed messages per run, short ones under every <=3-piece split "
            "(exhaustive over the schedule dimension for those messages), long ones under all single "
            "cuts and drawn multi-cuts; compared field by field with construction-time ground truth.",
    "note": "Trusts the harness grammar (RFC 7230 subset) and its ground truth bookkeeping; absence of "
            "split-dependence is shown on the explored messages/splits only.",
    "technique": "grammar-based generation with ground truth + exhaustive/biased split schedules; "
                 "metamorphic (split == whole) and round-trip oracle",
    "design_ref": "DESIGN.md section 3, C29",
}

SMALL = 64
NDRAWN = 12


# ----------------------------------------------------------------------------- driving
class _Ix(object):
    """stand-in for the Incomer a Requestant adjusts the timeout of"""
    timeout = 5.0


def exc_sig(ex):
    """ExcType@file:function of the innermost ioflo/aio frame (else innermost ioflo frame)."""
    site = "?"
    inner = None
    for fs in traceback.extract_tb(ex.__traceback__):
        if "/ioflo/aio/" in fs.filename:
            inner = "%s:%s" % (fs.filename.rsplit("/", 1)[-1], fs.name)
        elif "/ioflo/" in fs.filename:
            site = "%s:%s" % (fs.filename.rsplit("/", 1)[-1], fs.name)
    site = inner or site
    return "%s@%s" % (type(ex).__name__, site)


def _s(x):
    if x is None:
        return None
    if isinstance(x, (bytes, bytearray)):
        return bytes(x).decode("iso-8859-1")
    return x


def _unq(v):
    if v is None:
        return None
    v = _s(v)
    if len(v) >= 2 and v[0] == '"' and v[-1] == '"':
        v = v[1:-1]
    return v


def drive(spec, cuts, first=None):
    """Run the matching ioflo parser over wire+leftover split at `cuts`. -> observation dict
    first: an earlier message that the SAME parser object parses (whole) before, the way Valet / Patron reuse the
    parser of a keep-alive connection (makeParser() for the next message; Patron also reinit(method=...))"""
    from ioflo.aio.http import clienting, serving
    side = spec["side"]
    data = bytes(spec["wire"]) + bytes(spec["leftover"])
    if side == "request":
        p = serving.Requestant(msg=bytearray(), incomer=_Ix())
    else:
        p = clienting.Respondent(msg=bytearray(), method=(first or spec).get("reqmethod", "GET"))
    try:
        if first is not None:
            p.msg.extend(bytes(first["wire"]))
            for _ in range(4 + 2 * first.get("interim", 0)):
                if p.parser:
                    p.parse()
            if p.parser is not None or not p.ended or p.errored or p.msg:
                return {"exc": "first-message-not-parsed", "excmsg": "parser %r ended %r errored %r rest %r" % (
                    p.parser, p.ended, p.errored, bytes(p.msg)[:40])}
            if side == "response":
                p.reinit(method=spec.get("reqmethod", "GET"))
            p.makeParser()
        for piece in httpgen.pieces(data, cuts):
            p.msg.extend(piece)
            if p.parser:
                p.parse()
        for _ in range(3):
            if p.parser:
                p.parse()
        if spec["framing"] == "close" and p.parser:
            p.close()
            for _ in range(3):
                if p.parser:
                    p.parse()
    except Exception as ex:     # anything escaping the parser generator
        return {"exc": exc_sig(ex), "excmsg": "%s: %s" % (type(ex).__name__, ex)}
    obs = {
        "done": p.parser is None and bool(p.ended),
        "errored": bool(p.errored), "error": p.error,
        "version": list(p.version) if p.version else p.version,
        "headers": sorted((k, v) for k, v in (p.headers or {}).items()),
        "body": bytes(p.body),
        "trailers": sorted((k, v) for k, v in (p.trails or {}).items()),
        "parms": sorted((_s(k), _unq(v)) for k, v in (p.parms or {}).items()),
        "leftover": bytes(p.msg),
        "length": p.length, "chunked": bool(p.chunked),
    }
    if side == "request":
        obs.update({"method": p.method, "url": p.url, "path": p.path, "query": p.query,
                    "scheme": p.scheme, "hostname": p.hostname, "port": p.port})
    else:
        obs.update({"status": p.status, "reason": p.reason})
    return obs


def truth_failures(spec, obs):
    """Compare the whole-parse observation with the construction-time ground truth."""
    fails = []
    if "exc" in obs:
        return [(obs["exc"], "parser raised %s" % obs["excmsg"])]
    if not obs["done"]:
        return [("not-ended", "complete message but the parser still waits for bytes")]
    if obs["errored"]:
        return [("errored:" + "-".join(re.findall(r"[A-Za-z]+", str(obs["error"]))[:3]),
                 "well-formed message marked errored: %r" % (obs["error"],))]
    start = spec["start"]

    def need(field, got, exp):
        if got != exp:
            fails.append(("truth:" + field, "%s parsed as %r, sent %r" % (field, got, exp)))

    need("version", obs["version"], list(start["version"]))
    if spec["side"] == "request":
        need("method", obs["method"], start["method"])
        need("url", obs["url"], start["url"])
        if start["form"] in ("origin", "absolute"):
            need("path", obs["path"], start["path"])
            need("query", obs["query"], start["query"])
        if start["form"] == "absolute":
            need("scheme", obs["scheme"], start["scheme"])
            need("hostname", obs["hostname"], start["hostname"])
            need("port", obs["port"], start["port"])
    else:
        need("status", obs["status"], start["status"])
        need("reason", obs["reason"], start["reason"])
    need("headers", obs["headers"], sorted((k.lower(), v) for k, v in spec["headers"]))
    need("body", obs["body"], bytes(spec["body"]))
    need("trailers", obs["trailers"], sorted((k.lower(), v) for k, v in spec["trailers"]))
    need("parms", obs["parms"], sorted((k, v) for k, v in spec["parms"]))
    need("leftover", obs["leftover"], bytes(spec["leftover"]))
    return fails


def split_lists(spec):
    total = len(spec["wire"]) + len(spec["leftover"])
    if spec["splits"] == "all3":
        return httpgen.all_cuts(total)
    singles = [[c] for c in range(0, total + 1)]
    return singles + [list(c) for c in spec["splits"]]


def check_case(spec):
    """-> (failures, classes, nontrivial)"""
    whole = drive(spec, [])
    fails = truth_failures(spec, whole)
    seen = set(s for s, _ in fails)
    cutlabels = set()
    nsplits = 0
    for cuts in split_lists(spec):
        nsplits += 1
        cutlabels |= httpgen.cut_classes(spec, cuts)
        obs = drive(spec, cuts)
        if obs == whole:
            continue
        if "exc" in obs:
            sig, what = obs["exc"], "split at %r: parser raised %s" % (cuts, obs["excmsg"])
        elif "exc" in whole:
            sig, what = "split:no-raise", "whole parse raised %s but split at %r did not" % (whole["excmsg"], cuts)
        else:
            diff = sorted(k for k in obs if obs[k] != whole.get(k))
            sig = "split:" + diff[0]
            what = "split at %r differs from whole parse in %s: %r vs %r" % (
                cuts, diff, {k: obs[k] for k in diff[:3]}, {k: whole.get(k) for k in diff[:3]})
        if sig not in seen:
            seen.add(sig)
            fails.append((sig, what))
    classes = [spec["side"], spec["side"] + ":" + spec["framing"],
               "splits:exhaustive3" if spec["splits"] == "all3" else "splits:singles+drawn"]
    if spec["interim"]:
        classes.append("response:100-continue")
    if spec["parms"]:
        classes.append("chunk-extensions")
    if spec["trailers"]:
        classes.append("trailers")
    if spec["leftover"]:
        classes.append("leftover")
    if spec["side"] == "request":
        classes.append("target:" + spec["start"]["form"])
    for lab in sorted(cutlabels):
        classes.append("cut-in:" + lab)
    nontrivial = spec["framing"] == "chunked" or bool(cutlabels & {"crlf", "chunksize", "hname", "startline"})
    return fails, classes, nontrivial, nsplits


# ----------------------------------------------------------------------------- messages above 64 KiB
def bulk_spec(side, framing, n, tail):
    """A well-formed message whose body has n > 65536 octets (more than the line limit is buffered behind every head
    line when it arrives whole), with hand-written ground truth."""
    body = bytes((i * 7 + 3) % 251 for i in range(n))
    if side == "request":
        startline = b"POST /upload?x=1 HTTP/1.1"
        start = {"method": "POST", "url": "/upload?x=1", "version": [1, 1], "form": "origin", "path": "/upload", "query": "x=1"}
        headers = [["Host", "example.com"]]
    else:
        startline = b"HTTP/1.1 200 OK"
        start = {"version": [1, 1], "status": 200, "reason": "OK"}
        headers = [["Server", "demo"]]
    trailers, parms = [], []
    if framing == "length":
        headers.append(["Content-Length", "%d" % n])
        payload = body
    else:
        headers.append(["Transfer-Encoding", "chunked"])
        payload = b""
        pos = 0
        for size in (1, 4096, 30000, 65536, n):
            chunk = body[pos:pos + size]
            pos += len(chunk)
            if chunk:
                payload += b"%x\r\n" % len(chunk) + chunk + b"\r\n"
        payload += b"0\r\nX-Trail: t\r\n\r\n"
        trailers = [["X-Trail", "t"]]
    wire = startline + b"\r\n" + b"".join(("%s: %s\r\n" % (k, v)).encode("ascii") for k, v in headers) + b"\r\n" + payload
    total = len(wire) + len(tail)
    splits = [[7], [len(startline) + 1], [total - 1], [65536], [65537, 65540], list(range(4096, total, 4096))[:40], [1000, 2000, 70000]]
    return {"side": side, "wire": wire, "leftover": tail, "framing": framing, "start": start, "headers": headers, "body": body,
            "trailers": trailers, "parms": parms, "interim": 0, "reqmethod": "GET", "splits": splits, "bulk": True}


def check_bulk(spec):
    whole = drive(spec, [])
    fails = [("bulk:" + s_, "message of %d bytes delivered whole: %s" % (len(spec["wire"]), w)) for s_, w in truth_failures(spec, whole)]
    seen = set(s_ for s_, _ in fails)
    for cuts in spec["splits"]:
        obs = drive(spec, cuts)
        if obs != whole:
            diff = sorted(k for k in obs if obs[k] != whole.get(k))
            sig = "bulk:split:" + (obs.get("exc") or diff[0])
            if sig not in seen:
                seen.add(sig)
                fails.append((sig, "message of %d bytes: split at %r differs from the whole parse in %s (whole: errored=%r error=%r)"
                              % (len(spec["wire"]), cuts[:4], diff[:4], whole.get("errored"), whole.get("error"))))
    return fails


# ----------------------------------------------------------------------------- reused parser object
def check_reuse(case):
    """The parser object of a connection parses message `first`, is set up again and parses `second` under splits.
    -> (failures, classes, nontrivial, nsplits)"""
    first, spec = case["first"], case["second"]
    whole = drive(spec, [], first=first)
    fails = [("reuse:" + s_, "second message of a reused %s (first %r...): %s; second %r" % (
        "Requestant" if spec["side"] == "request" else "Respondent", bytes(first["wire"])[:60], w, bytes(spec["wire"])[:120]))
        for s_, w in truth_failures(spec, whole)]
    seen = set(s_ for s_, _ in fails)
    n = 1
    for cuts in case["splits"]:
        n += 1
        obs = drive(spec, cuts, first=first)
        if obs == whole:
            continue
        if "exc" in obs:
            sig, what = "reuse:" + obs["exc"], "split at %r: parser raised %s" % (cuts, obs["excmsg"])
        elif "exc" in whole:
            sig, what = "reuse:split:no-raise", "whole parse raised %s but split at %r did not" % (whole["excmsg"], cuts)
        else:
            diff = sorted(k for k in obs if obs[k] != whole.get(k))
            sig = "reuse:split:" + diff[0]
            what = "split at %r differs from whole parse in %s: %r vs %r" % (
                cuts, diff, {k: obs[k] for k in diff[:3]}, {k: whole.get(k) for k in diff[:3]})
        if sig not in seen:
            seen.add(sig)
            fails.append((sig, "second message of a reused parser: " + what))
    classes = ["reuse", "reuse:%s:%s-then-%s" % (spec["side"], first["framing"], spec["framing"])]
    if first["trailers"]:
        classes.append("reuse:first-has-trailers")
    if first["body"]:
        classes.append("reuse:first-has-body")
    return fails, classes, bool(first["body"] or first["trailers"] or first["parms"]), n


@st.composite
def reuse_cases(draw, side):
    first = draw(httpgen.message(side, draw(st.booleans())).filter(lambda m: m["framing"] != "close"))
    spec = draw(httpgen.message(side, draw(st.booleans())))
    total = len(spec["wire"]) + len(spec["leftover"])
    marks = httpgen.interesting_offsets(spec)
    return {"reuse": True, "first": first, "second": spec,
            "splits": [draw(httpgen.cuts_for(total, marks)) for _ in range(6)]}


# ----------------------------------------------------------------------------- keep-alive connection of a Valet
FIRSTS = [b"GET /a HTTP/1.1\r\nHost: h\r\n\r\n",
          b"POST /p?x=1 HTTP/1.1\r\nHost: h\r\nContent-Length: 5\r\n\r\nhello",
          b"PUT /c HTTP/1.1\r\nHost: h\r\nTransfer-Encoding: chunked\r\n\r\n3\r\nabc\r\n0\r\n\r\n",
          b"HEAD / HTTP/1.1\r\nHost: h\r\nConnection: keep-alive\r\n\r\n"]


def run_keepalive(case, cuts, gaps=None):
    """One in-memory connection of a real Valet: the first request arrives whole and is answered, then the second
    request arrives in the pieces given by cuts (one piece per service pass, plus `gaps` empty passes before each).
    -> dict(resp=bytes sent for the second request, closed, exc)"""
    from vp.net import http_doubles
    from vp.checks import c32_http_malformed as c32
    valet, socks = http_doubles.make_valet(c32.app, 1)
    sock = socks[0]
    out = {}
    try:
        sock.deliver(FIRSTS[case["first"]])
        for _ in range(4):
            valet.serviceAll()
        n1 = len(sock.sent)
        if not n1 or sock.closed:
            out["harness"] = "first request not answered / connection closed (%d bytes)" % n1
            return out
        parts = httpgen.pieces(bytes(case["second"]["wire"]), cuts)
        for k, piece in enumerate(parts):
            for _ in range((gaps or [])[k] if k < len(gaps or []) else 0):
                valet.serviceAll()
            if piece and not sock.closed:
                sock.deliver(piece)
            valet.serviceAll()
        for _ in range(4):
            valet.serviceAll()
        out["resp"] = bytes(sock.sent[n1:])
        out["closed"] = bool(sock.closed)
    except Exception as ex:   # noqa: BLE001
        out["exc"] = exc_sig(ex)
        out["excmsg"] = "%s: %s" % (type(ex).__name__, ex)
    finally:
        try:
            valet.close()
        except Exception:   # noqa: BLE001
            pass
    return out


def check_keepalive(case):
    """-> (failures, classes, nontrivial, nsplits)"""
    from vp.checks import c32_http_malformed as c32
    spec = case["second"]
    whole = run_keepalive(case, [])
    if "harness" in whole:
        raise RuntimeError(whole["harness"])
    fails = []
    if "exc" in whole:
        return [("keepalive:" + whole["exc"], "second request on a keep-alive connection, delivered whole: serviceAll raised %s"
                 % whole["excmsg"])], ["keepalive"], False, 1
    prob = c32.check_response(spec, whole["resp"])
    if prob:
        fails.append(("keepalive:wrong-response", "second request on a keep-alive connection (first %r), delivered whole: %s"
                      % (FIRSTS[case["first"]][:30], prob)))
    total = len(spec["wire"])
    splits = [[c] for c in range(1, total)] if total <= 400 else []
    splits += [list(c) for c in case["splits"]]
    labels = set()
    seen = set(s for s, _ in fails)
    for k, cuts in enumerate(splits):
        labels |= httpgen.cut_classes(spec, cuts)
        obs = run_keepalive(case, cuts, case["gaps"] if k >= len(splits) - len(case["splits"]) else None)
        if obs == whole:
            continue
        if "exc" in obs:
            sig, what = "keepalive:" + obs["exc"], "serviceAll raised %s" % obs["excmsg"]
        else:
            sig = "keepalive:split-response" if obs.get("resp") != whole["resp"] else "keepalive:split-closed"
            what = "response %r (closed=%r), delivered whole %r (closed=%r)" % (
                (obs.get("resp") or b"")[:80], obs.get("closed"), whole["resp"][:80], whole["closed"])
        if sig not in seen:
            seen.add(sig)
            fails.append((sig, "second request of a keep-alive connection (after %r) split at %r over service passes: %s; request %r"
                          % (FIRSTS[case["first"]][:30], cuts, what, bytes(spec["wire"])[:120])))
    classes = ["keepalive", "keepalive:" + spec["framing"], "keepalive-first:%d" % case["first"]]
    for lab in sorted(labels):
        classes.append("cut-in:" + lab)
    return fails, classes, True, len(splits) + 1


@st.composite
def keepalive_cases(draw):
    spec = draw(httpgen.message("request", draw(st.booleans())))
    total = len(spec["wire"])
    marks = httpgen.interesting_offsets(spec)
    splits = [draw(httpgen.cuts_for(total, marks)) for _ in range(4)]
    return {"keepalive": True, "first": draw(st.integers(0, len(FIRSTS) - 1)), "second": spec, "splits": splits,
            "gaps": draw(st.lists(st.integers(0, 2), min_size=0, max_size=4))}


# ----------------------------------------------------------------------------- strategy
@st.composite
def cases(draw, side, small):
    spec = draw(httpgen.message(side, small))
    total = len(spec["wire"]) + len(spec["leftover"])
    if total <= SMALL:
        spec["splits"] = "all3"
    else:
        marks = httpgen.interesting_offsets(spec)
        spec["splits"] = [draw(httpgen.cuts_for(total, marks)) for _ in range(NDRAWN)]
    return spec


def plan(tier):
    n = 2 if tier == "quick" else 8
    shards = []
    if tier == "thorough":      # coverage-guided campaigns first: they run for a fixed time
        shards += [{"part": "atheris", "target": "c29-request", "seconds": 240, "i": 900},
                   {"part": "atheris", "target": "c29-response", "seconds": 240, "i": 901}]
    for side in ("request", "response"):
        for small in (True, False):
            for i in range(n):
                shards.append({"side": side, "small": small, "i": len(shards)})
    for i in range(n):
        shards.append({"part": "keepalive", "i": 700 + i})
    for side in ("request", "response"):
        for i in range(n):
            shards.append({"part": "reuse", "side": side, "i": 800 + len(shards)})
    shards.append({"part": "bulk", "i": 950})
    return shards


def work(shard, seed, tier):
    from vp.core import env
    env.quiet_ioflo()
    acc = Acc()
    if shard.get("part") == "atheris":
        from vp.fuzz.fuzz_http import run_campaign
        run_campaign(acc, shard["target"], shard["seconds"], seed, max_len=16384)
        return acc
    if shard.get("part") == "bulk":
        for side in ("request", "response"):
            for framing in ("length", "chunked"):
                for n in (65537, 70000, 140000):
                    for tail in (b"", b"GET /next HTTP/1.1\r\n"):
                        spec = bulk_spec(side, framing, n, tail)
                        fails = check_bulk(spec)
                        acc.case(key=("bulk", side, framing, n, tail), nontrivial=True, classes=["bulk>64KiB", "bulk:%s:%s" % (side, framing)],
                                 sample=None)
                        for sig, what in fails:
                            acc.fail(sig, what, {"bulk": [side, framing, n, tail]})
        acc.note("messages above 64 KiB: 2 sides x 2 framings x 3 sizes x 2 tails, whole and 7 splits each")
        return acc
    if shard.get("part") == "reuse":
        tot = {"splits": 0}

        def execute_reuse(case):
            fails, classes, nontrivial, nsplits = check_reuse(case)
            tot["splits"] += nsplits
            return Outcome(fails, nontrivial=nontrivial, classes=classes,
                           key=(bytes(case["first"]["wire"]), bytes(case["second"]["wire"]), repr(case["splits"])),
                           sample={"first": bytes(case["first"]["wire"])[:120], "second": bytes(case["second"]["wire"])[:120]})
        campaign(acc, reuse_cases(shard["side"]), execute_reuse, 60 if tier == "quick" else 900, seed * 1000 + shard["i"],
                 budget=Budget(120 if tier == "quick" else 480))
        acc.extra["split_parses"] = tot["splits"]
        return acc
    if shard.get("part") == "keepalive":
        tot = {"splits": 0}

        def execute_ka(case):
            fails, classes, nontrivial, nsplits = check_keepalive(case)
            tot["splits"] += nsplits
            spec = case["second"]
            return Outcome(fails, nontrivial=nontrivial, classes=classes,
                           key=(case["first"], bytes(spec["wire"]), repr(case["splits"])),
                           sample={"first": FIRSTS[case["first"]], "second": bytes(spec["wire"])[:160], "splits": case["splits"][:2]})
        campaign(acc, keepalive_cases(), execute_ka, 40 if tier == "quick" else 600, seed * 1000 + shard["i"],
                 budget=Budget(120 if tier == "quick" else 480))
        acc.extra["split_parses"] = tot["splits"]
        return acc
    if tier == "quick":
        n = 50 if shard["small"] else 90
    else:
        n = 400 if shard["small"] else 900
    tot = {"splits": 0}

    def execute(spec):
        fails, classes, nontrivial, nsplits = check_case(spec)
        tot["splits"] += nsplits
        key = (bytes(spec["wire"]), bytes(spec["leftover"]), repr(spec["splits"]))
        sample = {"side": spec["side"], "framing": spec["framing"], "wire": bytes(spec["wire"])[:160],
                  "leftover": spec["leftover"],
                  "splits": spec["splits"] if spec["splits"] == "all3" else spec["splits"][:2]}
        return Outcome(fails, nontrivial=nontrivial, classes=classes, key=key, sample=sample)

    campaign(acc, cases(shard["side"], shard["small"]), execute, n, seed * 1000 + shard["i"],
             budget=Budget(120 if tier == "quick" else 480))
    acc.extra["split_parses"] = tot["splits"]
    return acc


def replay(case):
    from vp.core import env
    env.quiet_ioflo()
    if case.get("bulk"):
        side, framing, n, tail = case["bulk"]
        return check_bulk(bulk_spec(side, framing, n, bytes(tail)))
    if case.get("reuse"):
        return check_reuse(case)[0]
    fails, _, _, _ = check_keepalive(case) if case.get("keepalive") else check_case(case)
    return fails
