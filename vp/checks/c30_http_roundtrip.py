"""C30 HTTP requests and WSGI responses survive the round trip.

A real `Patron` (client) and a real `Valet` (WSGI server) are joined by an in-memory
`DuplexPipe` (vp.net.httppipe) with generated segmentation.  One generated request is sent,
a generated WSGI application answers it; the oracle is the round trip:

* what the application sees in its WSGI environ equals what was requested
  (REQUEST_METHOD, PATH_INFO, QUERY_STRING decoded with urllib.parse.parse_qsl,
  CONTENT_LENGTH, CONTENT_TYPE, wsgi.input, HTTP_* headers); a GET carries no body (as
  documented in Requester.build); a JSON body decodes to the data; a form body decoded with
  parse_qsl gives the form arguments;
* what the client delivers (status, reason, headers, body) equals what the application
  produced (fixed length / chunked / streamed with pauses / write() callback / empty /
  HTTPError raised before any output).
"""
import json
import unicodedata
from urllib.parse import parse_qsl

from hypothesis import strategies as st

from vp.core.acc import Acc
from vp.core.hyp import campaign, Outcome, Budget
from vp.net import httppipe

PROPERTY = "C30"
LEVEL = "exploration"
RULE = ("Hypothesis-generated (request, WSGI response, pipe chunk schedule) triples executed between a real Patron "
        "and a real Valet over an in-memory duplex pipe: method from httping.METHODS, unicode path with one leading "
        "'/', query/form names = URL tokens, arbitrary unicode values, token header names with latin-1 values, "
        "binary / JSON / form bodies; response shapes fixed, fixed-generator, chunked, streamed-with-pauses, "
        "write-callback, empty, HTTPError (raised by the callable, by the generator, after start_response). "
        "non-trivial = the path, a query value or a form value contains a reserved character (& = + % ; # ? / "
        "space) or a non-ASCII character; distinct = distinct generated triple")
ASSUMPTIONS = [
    "urllib.parse.parse_qsl(keep_blank_values=True) is the reference decoder for query strings and form bodies",
    "the in-memory socket doubles behave like non-blocking stream sockets (EAGAIN when empty/full, short reads/writes)",
    "out of the generated domain (undocumented): multipart forms, paths with ?, #, leading // or control characters, "
    "reason phrases with repeated blanks, bodies on 1xx/204/304 and on answers to HEAD, header values with CR/LF or "
    "outer blanks, redirect statuses (C34), event streams (C33)",
    "Server, Date, Transfer-Encoding (and Content-Type/Content-Length for a rendered HTTPError) may be added by the server",
]
META = {
    "level": LEVEL,
    "text": "Hundreds (quick) to tens of thousands (thorough) of generated request/response pairs are driven through "
            "the unmodified client and server classes with generated segmentation; both directions are compared "
            "field by field with what was put in. Exploration: absence of a violation holds for the explored cases.",
    "note": "Trusts urllib.parse (quote/unquote/parse_qsl), json and the harness socket doubles.",
    "technique": "Hypothesis property-based round-trip testing over an in-memory socket pair",
    "design_ref": "DESIGN.md section 3, C30",
}

METHODS = ["GET", "HEAD", "PUT", "PATCH", "POST", "DELETE", "OPTIONS", "TRACE", "CONNECT"]
RESERVED = set("&=+%;#?/ ")
TOKEN_CHARS = "abcdefghijklmnopqrstuvwxyzABCDEFGHIJKLMNOPQRSTUVWXYZ0123456789-._~"
HDR_CHARS = "abcdefghijklmnopqrstuvwxyzABCDEFGHIJKLMNOPQRSTUVWXYZ0123456789-_.!#$%&'*+^`|~"
HDR_RESERVED = {"host", "content-length", "content-type", "transfer-encoding", "connection", "accept-encoding",
                "keep-alive", "proxy-connection", "expect", "upgrade", "te", "trailer", "server", "date",
                "location", "last-event-id"}
STATUS_WORDS = {200: "OK", 201: "Created", 202: "Accepted", 203: "Non-Authoritative Information", 205: "Reset Content",
                206: "Partial Content", 400: "Bad Request", 401: "Unauthorized", 403: "Forbidden", 404: "Not Found",
                405: "Method Not Allowed", 409: "Conflict", 410: "Gone", 418: "I'm a teapot", 422: "Unprocessable Entity",
                429: "Too Many Requests", 500: "Internal Server Error", 501: "Not Implemented", 503: "Service Unavailable",
                599: "Odd"}
ERR_STATUS = [400, 401, 403, 404, 405, 409, 410, 418, 422, 429, 500, 501, 503]


# ------------------------------------------------------------------------------ strategies
def _ok_path_char(c):
    return c not in "?#" and unicodedata.category(c) not in ("Cc", "Cs")


token = st.text(alphabet=TOKEN_CHARS, min_size=1, max_size=6)
value = st.one_of(
    st.text(alphabet="&=+%;#? /ab1é☃", max_size=8),
    st.text(max_size=10),
    st.text(alphabet="abcXYZ019-._~", max_size=6),
)
path_seg = st.one_of(
    st.text(alphabet="abcXYZ019-._~", min_size=1, max_size=6),
    st.text(alphabet="&=+%;: ab@!$'()*,é☃\U0001F600", min_size=1, max_size=6),
    st.text(min_size=1, max_size=6).map(lambda s: "".join(c for c in s if _ok_path_char(c) and c != "/")).filter(bool),
    # text that looks like a percent-escape is still literal text of the path
    st.sampled_from(["50%25 off", "a%2Fb.txt", "%C3%A9té", "%41", "%zz%20", "%%30", "x%3f", "%2525"]),
    st.text(alphabet="%25aAfF0", min_size=2, max_size=6),
)
path = st.lists(path_seg, min_size=0, max_size=4).flatmap(
    lambda segs: st.booleans().map(lambda trail: "/" + "/".join(segs) + ("/" if trail and segs else "")))
latin1 = st.text(alphabet=st.characters(min_codepoint=0x20, max_codepoint=0xFF, blacklist_characters="\x7f",
                                        blacklist_categories=("Cc",)), max_size=12).map(lambda s: s.strip(" "))      # only SP / HTAB is optional white space around a value
hdr_name = st.text(alphabet=HDR_CHARS, min_size=1, max_size=8).filter(lambda n: n.lower() not in HDR_RESERVED)


def _uniq(pairs, norm):
    out, seen = [], set()
    for k, v in pairs:
        n = norm(k)
        if n not in seen:
            seen.add(n)
            out.append([k, v])
    return out


def _pairs(keys, vals, norm, max_size):
    return st.lists(st.tuples(keys, vals), max_size=max_size).map(lambda ps: _uniq(ps, norm))


req_headers = _pairs(hdr_name, latin1, lambda k: k.lower().replace("-", "_"), 5)
resp_headers = _pairs(hdr_name, latin1, lambda k: k.lower(), 5)
qargs = _pairs(token, st.one_of(value, st.integers(-5, 99)), lambda k: k, 4)
fargs = _pairs(token, value, lambda k: k, 4)
json_leaf = st.one_of(st.none(), st.booleans(), st.integers(-2 ** 40, 2 ** 40),
                      st.floats(allow_nan=False, allow_infinity=False, width=64), st.text(max_size=6))
json_val = st.recursive(json_leaf, lambda ch: st.one_of(st.lists(ch, max_size=3),
                                                        st.dictionaries(st.text(max_size=4), ch, max_size=3)),
                        max_leaves=6)
json_data = st.dictionaries(st.text(max_size=5), json_val, max_size=4).map(lambda d: json.dumps(d))
body = st.one_of(st.binary(max_size=40), st.binary(min_size=1, max_size=300),
                 st.sampled_from([b"\r\n\r\n", b"0\r\n\r\n", b"GET / HTTP/1.1\r\n\r\n", b"\x00\xff"]))
ctype = st.sampled_from([None, None, "application/octet-stream", "text/plain", "text/plain; charset=utf-8",
                         "application/json"])


@st.composite
def request_st(draw, kind=None, methods=None):
    if kind is None:
        kind = draw(st.sampled_from(["none", "body", "body", "data", "fargs", "fargs"]))
    req = {"method": draw(st.sampled_from(methods or (METHODS + ["POST", "PUT", "GET"]))), "path": draw(path),
           "qargs": draw(qargs), "headers": draw(req_headers), "kind": kind,
           "via": draw(st.sampled_from(["append", "request"]))}
    if kind == "body":
        req["body"] = draw(body)
        ct = draw(ctype)
        if ct:
            req["ctype"] = ct
    elif kind == "data":
        req["data_json"] = draw(json_data)
    elif kind == "fargs":
        req["fargs"] = draw(fargs)
    return req


reason = st.lists(st.text(alphabet="abcdefghijklmnopqrstuvwxyzABCDEFGHIJKLMNOPQRSTUVWXYZ'-", min_size=1, max_size=7),
                  min_size=1, max_size=3).map(" ".join)
pieces = st.lists(st.one_of(st.binary(min_size=1, max_size=20), st.binary(min_size=1, max_size=120),
                            st.sampled_from([b"0\r\n\r\n", b"\r\n", b"HTTP/1.1 200 OK\r\n\r\n"])),
                  min_size=0, max_size=4)
latin_line = st.text(alphabet=st.characters(min_codepoint=0x20, max_codepoint=0xFF, blacklist_categories=("Cc",)),
                     max_size=12)


@st.composite
def response_st(draw, method):
    shape = draw(st.sampled_from(["fixed", "fixedgen", "chunked", "streamed", "streamed", "write", "empty",
                                  "error", "errorgen", "errorstarted"]))
    code = draw(st.sampled_from(sorted(STATUS_WORDS) + [204, 304]))
    if method == "HEAD":
        shape = draw(st.sampled_from(["empty", "headlen"]))
    if code in (204, 304):
        shape = "empty"
    words = {204: "No Content", 304: "Not Modified"}.get(code) or STATUS_WORDS[code]
    resp = {"shape": shape, "status": "%d %s" % (code, draw(st.one_of(st.just(words), reason))),
            "headers": draw(resp_headers)}
    ct = draw(ctype)
    if ct:
        resp["ctype"] = ct
    if shape in ("fixed", "fixedgen", "chunked", "streamed", "write"):
        resp["pieces"] = draw(pieces)
        if shape == "write":
            resp["nwrite"] = draw(st.integers(0, 4))
    if shape in ("streamed", "fixedgen", "errorgen", "errorstarted"):
        resp["pauses"] = draw(st.lists(st.integers(0, 2), min_size=1, max_size=5))
    if shape == "empty":
        resp["explicit_len"] = draw(st.booleans()) and code not in (204, 304)
    if shape == "headlen":
        resp["len"] = draw(st.integers(0, 500))
    if shape in ("error", "errorgen", "errorstarted"):
        resp["err"] = {"status": draw(st.sampled_from(ERR_STATUS)),
                       "reason": draw(st.one_of(st.just(""), reason)),
                       "title": draw(latin_line), "detail": draw(latin_line),
                       "fault": draw(st.one_of(st.none(), st.integers(0, 999))),
                       "headers": draw(resp_headers)}
    return resp


sched_list = st.one_of(st.just([]), st.lists(st.sampled_from([0, 0, 1, 2, 3, 5, 8, 13, 64, 1000]), min_size=1, max_size=6))
sched_st = st.fixed_dictionaries({"a_send": sched_list, "a_recv": sched_list, "b_send": sched_list, "b_recv": sched_list})


@st.composite
def case_st(draw):
    mode = draw(st.integers(0, 5))
    if mode == 0:
        # two generated requests in a row through one Patron: every ordered pair of body kinds, mostly with
        # methods that carry a body
        ka, kb = draw(st.sampled_from([(a, b) for a in ("data", "body", "fargs", "none") for b in ("data", "body", "fargs", "none")]))
        m = draw(st.sampled_from([None, ["POST", "PUT", "PATCH"], ["POST", "PUT", "PATCH"]]))
        req = draw(request_st(kb, m))
        case = {"req": req, "resp": draw(response_st(req["method"])), "sched": draw(sched_st)}
        case["prevreq"] = draw(request_st(ka, m))
        case["prev"] = draw(response_st(case["prevreq"]["method"]))
        return case
    req = draw(request_st())
    case = {"req": req, "resp": draw(response_st(req["method"])), "sched": draw(sched_st)}
    # in a third of the cases the exchange under test is the SECOND one on its connection: a plain GET with a
    # generated response shape goes first (state left over by a previous response must not leak into this one)
    if mode in (1, 2):
        case["prev"] = draw(response_st("GET"))
    return case


# ------------------------------------------------------------------------------ execution
def make_app(resp, seen):
    from ioflo.aio.http import httping

    def headers():
        hs = [(k, v) for k, v in resp["headers"]]
        if resp.get("ctype"):
            hs.append(("Content-Type", resp["ctype"]))
        return hs

    def error():
        e = resp["err"]
        return httping.HTTPError(e["status"], reason=e["reason"], title=e["title"], detail=e["detail"],
                                 fault=e["fault"], headers=dict((k, v) for k, v in e["headers"]))

    def app(environ, start_response):
        rec = {k: v for k, v in environ.items() if isinstance(v, str)}
        rec["wsgi.input"] = environ["wsgi.input"].read()
        rec["wsgi.version"] = environ.get("wsgi.version")
        seen.append(rec)
        shape = resp["shape"]
        ps = list(resp.get("pieces", []))
        total = sum(len(p) for p in ps)
        if shape == "error":
            raise error()
        if shape == "errorgen":
            def gen():
                for _ in range(sum(resp["pauses"])):
                    yield b""
                raise error()
            return gen()
        if shape == "errorstarted":
            start_response(resp["status"], headers())

            def gen():
                for _ in range(sum(resp["pauses"])):
                    yield b""
                raise error()
            return gen()
        if shape == "empty":
            start_response(resp["status"], headers() + ([("Content-Length", "0")] if resp.get("explicit_len") else []))
            return []
        if shape == "headlen":
            start_response(resp["status"], headers() + [("Content-Length", str(resp["len"]))])
            return []
        if shape == "fixed":
            start_response(resp["status"], headers() + [("Content-Length", str(total))])
            return ps
        if shape == "chunked":
            start_response(resp["status"], headers())
            return ps
        if shape == "write":
            write = start_response(resp["status"], headers())
            n = min(resp.get("nwrite", 0), len(ps))
            for p in ps[:n]:
                write(p)
            return ps[n:]
        # generators with pauses (empty yields = "not ready yet")
        pauses = resp["pauses"]

        def gen():
            hs = headers() + ([("Content-Length", str(total))] if shape == "fixedgen" else [])
            start_response(resp["status"], hs)
            for i, p in enumerate(ps):
                for _ in range(pauses[i % len(pauses)]):
                    yield b""
                yield p
            for _ in range(pauses[-1]):
                yield b""
        return gen()

    return app


def expected_response(resp):
    """(code, reason, headers that must be present, body, names the server may add)."""
    may_add = {"server", "date", "transfer-encoding"}
    if resp["shape"] in ("error", "errorgen", "errorstarted"):
        from ioflo.aio.http import httping
        e = resp["err"]
        ex = httping.HTTPError(e["status"], reason=e["reason"], title=e["title"], detail=e["detail"],
                               fault=e["fault"], headers=dict((k, v) for k, v in e["headers"]))
        body = ex.render()
        hs = [[k, v] for k, v in e["headers"]] + [["content-length", str(len(body))]]
        may_add |= {"content-type"}
        return e["status"], ex.reason, hs, body, may_add
    code, _, words = resp["status"].partition(" ")
    hs = [[k, v] for k, v in resp["headers"]]
    if resp.get("ctype"):
        hs.append(["content-type", resp["ctype"]])
    body = b"".join(resp.get("pieces", []))
    if resp["shape"] in ("fixed", "fixedgen"):
        hs.append(["content-length", str(len(body))])
    if resp["shape"] == "headlen":
        hs.append(["content-length", str(resp["len"])])
    if resp["shape"] == "empty" and resp.get("explicit_len"):
        hs.append(["content-length", "0"])
    return int(code), words, hs, body, may_add


def expected_body(req):
    """(body bytes or None when compared structurally, content type or None)."""
    if req["method"] == "GET":
        return b"", req.get("ctype", "") if req["kind"] == "body" else ""
    if req["kind"] == "body":
        return req["body"], req.get("ctype", "")
    if req["kind"] == "data":
        return None, "application/json; charset=utf-8"
    if req["kind"] == "fargs":
        return None, "application/x-www-form-urlencoded; charset=utf-8"
    return b"", ""


def _request_kw(req):
    from ioflo.aid.odicting import odict
    hdrs = odict((k, v) for k, v in req["headers"])
    if req.get("ctype"):
        hdrs["Content-Type"] = req["ctype"]
    kw = odict([("method", req["method"]), ("path", req["path"]),
                ("qargs", odict((k, v) for k, v in req["qargs"])), ("headers", hdrs)])
    if req["kind"] == "body":
        kw["body"] = req["body"]
    elif req["kind"] == "data":
        kw["data"] = json.loads(req["data_json"])
    elif req["kind"] == "fargs":
        kw["fargs"] = odict((k, v) for k, v in req["fargs"])
    return kw


def run_case(case):
    from ioflo.aid.odicting import odict
    req, resp = case["req"], case["resp"]
    fails = []
    seen = []
    prev = case.get("prev")
    if prev:
        prevseen = []
        apps = [make_app(prev, prevseen), make_app(resp, seen)]
        calls = []

        def app(environ, start_response):
            calls.append(1)
            return apps[0 if len(calls) == 1 else 1](environ, start_response)
    else:
        app = make_app(resp, seen)
    mp = httppipe.memory_pair(app, case.get("sched"), redirectable=False)
    try:
        if prev:
            if case.get("prevreq"):
                mp.patron.request(**_request_kw(case["prevreq"]))
            else:
                mp.patron.request(method="GET", path="/warmup")
            state, rounds, ex = httppipe.drive(mp, lambda: bool(mp.patron.responses) and not mp.patron.waited)
            if state != "done":
                # the warm-up exchange itself is not this case's subject (C31 decides sequences)
                return fails
            mp.patron.responses.clear()
        kw = _request_kw(req)
        if req.get("via") == "request":
            mp.patron.request(**kw)
        else:
            kw["fragment"] = u""
            mp.patron.requests.append(kw)

        state, rounds, ex = httppipe.drive(mp, lambda: bool(mp.patron.responses) and not mp.patron.waited)
        if state == "raised":
            fails.append((httppipe.exc_sig(ex), "servicing raised %r (request %r, response shape %s)"
                          % (ex, _brief(req), resp["shape"])))
            return fails
        # ---------------- request side: what the application saw
        if len(seen) != 1:
            if state != "done":
                fails.append(("no-request-at-app/%s" % req["kind"],
                              "application was called %d times, exchange %s after %d rounds (request %r)"
                              % (len(seen), state, rounds, _brief(req))))
                return fails
            fails.append(("app-calls", "application called %d times for one request" % len(seen)))
        if seen:
            fails.extend(check_environ(req, seen[0]))
        # ---------------- response side
        if state != "done":
            fails.append(("response-never-completes/%s" % resp["shape"],
                          "no response delivered: exchange %s after %d rounds (response %r)" % (state, rounds, resp)))
            return fails
        if len(mp.patron.responses) != 1:
            fails.append(("response-count", "%d responses for one request" % len(mp.patron.responses)))
        fails.extend(check_response(resp, mp.patron.responses[0]))
        return fails
    finally:
        mp.close()


def _brief(req):
    return {k: req[k] for k in ("method", "path", "qargs", "kind") if k in req}


def check_environ(req, env):
    fails = []

    def bad(sig, what):
        fails.append((sig, what + " (request %r)" % _brief(req)))

    if env.get("REQUEST_METHOD") != req["method"]:
        bad("environ-method", "REQUEST_METHOD %r != %r" % (env.get("REQUEST_METHOD"), req["method"]))
    if env.get("PATH_INFO") != req["path"]:
        bad("environ-path", "PATH_INFO %r != requested path %r" % (env.get("PATH_INFO"), req["path"]))
    want_q = [(k, str(v)) for k, v in req["qargs"]]
    got_q = parse_qsl(env.get("QUERY_STRING", ""), keep_blank_values=True)
    if got_q != want_q:
        bad("environ-query", "QUERY_STRING %r decodes to %r, requested %r" % (env.get("QUERY_STRING"), got_q, want_q))
    if env.get("SCRIPT_NAME") != "" or env.get("SERVER_PROTOCOL") != "HTTP/1.1" or env.get("wsgi.url_scheme") != "http" \
            or env.get("wsgi.version") != (1, 0):
        bad("environ-fixed-keys", "SCRIPT_NAME/SERVER_PROTOCOL/wsgi.url_scheme/wsgi.version = %r %r %r %r"
            % (env.get("SCRIPT_NAME"), env.get("SERVER_PROTOCOL"), env.get("wsgi.url_scheme"), env.get("wsgi.version")))
    for k, v in req["headers"]:
        key = "HTTP_" + k.upper().replace("-", "_")
        if env.get(key) != v:
            bad("environ-header", "%s = %r, header %r was sent with %r" % (key, env.get(key), k, v))
    if "HTTP_HOST" not in env:
        bad("environ-host", "no HTTP_HOST")
    want_body, want_ct = expected_body(req)
    got_body = env["wsgi.input"]
    if env.get("CONTENT_TYPE", "") != want_ct:
        bad("environ-content-type", "CONTENT_TYPE %r != %r" % (env.get("CONTENT_TYPE"), want_ct))
    if "CONTENT_LENGTH" in env and env["CONTENT_LENGTH"] != str(len(got_body)):
        bad("environ-content-length", "CONTENT_LENGTH %r but wsgi.input has %d bytes" % (env["CONTENT_LENGTH"], len(got_body)))
    if want_body is not None:
        if got_body != want_body:
            bad("environ-body/%s" % req["kind"], "wsgi.input %r != sent body %r" % (got_body[:80], want_body[:80]))
    elif req["kind"] == "data":
        try:
            got = json.loads(got_body.decode("utf-8"))
        except ValueError as ex:
            got = ex
        if got != json.loads(req["data_json"]):
            bad("environ-json", "wsgi.input %r does not decode to the data %s" % (got_body[:120], req["data_json"]))
    elif req["kind"] == "fargs":
        want = [(k, str(v)) for k, v in req["fargs"]]
        try:
            got = parse_qsl(got_body.decode("utf-8"), keep_blank_values=True)
        except ValueError as ex:
            got = ex
        if got != want:
            bad("environ-form", "form body %r decodes to %r, form args were %r" % (got_body[:120], got, want))
    return fails


def check_response(resp, got):
    fails = []
    code, words, hs, body, may_add = expected_response(resp)
    shape = resp["shape"]
    if got.get("errored"):
        fails.append(("response-errored/%s" % shape, "client marked the response errored: %r" % got.get("error")))
    if got.get("status") != code:
        fails.append(("response-status/%s" % shape, "status %r != %r" % (got.get("status"), code)))
    if got.get("reason") != words:
        fails.append(("response-reason/%s" % shape, "reason %r != %r" % (got.get("reason"), words)))
    gh = got.get("headers") or {}
    want = {}
    for k, v in hs:
        want[k.lower()] = v
    for k, v in want.items():
        if gh.get(k) != v:
            fails.append(("response-header/%s" % shape, "header %r: client has %r, application sent %r" % (k, gh.get(k), v)))
            break
    extra = [k for k in gh.keys() if k.lower() not in want and k.lower() not in may_add]
    if extra:
        fails.append(("response-extra-header/%s" % shape, "client has headers %r the application never sent" % extra))
    if bytes(got.get("body", b"")) != body:
        fails.append(("response-body/%s" % shape, "body %r != produced %r" % (bytes(got.get("body", b""))[:100], body[:100])))
    return fails


# ------------------------------------------------------------------------------ bookkeeping
def _has_reserved(s):
    s = str(s)
    return any(c in RESERVED or ord(c) > 127 for c in s)


def classify(case):
    req, resp = case["req"], case["resp"]
    cls = ["method:" + req["method"], "kind:" + req["kind"], "shape:" + resp["shape"], "via:" + req.get("via", "append")]
    nt = False
    if _has_reserved(req["path"][1:].replace("/", "")):
        cls.append("reserved-in-path")
        nt = True
    if any(_has_reserved(v) for _, v in req["qargs"]):
        cls.append("reserved-in-query-value")
        nt = True
    if req["kind"] == "fargs" and any(_has_reserved(v) for _, v in req["fargs"]):
        cls.append("reserved-in-form-value")
        nt = True
    if req["kind"] == "fargs" and any(("&" in str(v) or "=" in str(v)) for _, v in req["fargs"]) and req["method"] != "GET":
        cls.append("form-value-with-&-or-=")
    if any(any(ord(c) > 127 for c in v) for _, v in req["headers"]):
        cls.append("latin1-header-value")
    if any(case["sched"].get(k) for k in case["sched"]):
        cls.append("chunked-transport")
    if nt:
        cls.append("non-trivial")
    return nt, cls


def execute(case):
    fails = run_case(case)
    nt, cls = classify(case)
    return Outcome(fails, nontrivial=nt, classes=cls, key=case)


def plan(tier):
    n = 8 if tier == "quick" else 16
    return [{"i": i} for i in range(n)]


def work(shard, seed, tier):
    acc = Acc()
    n = 150 if tier == "quick" else 1900
    campaign(acc, case_st(), execute, n, seed * 1000 + shard["i"],
             budget=Budget(90 if tier == "quick" else 540), shrink_examples=300)
    return acc


def replay(case):
    return run_case(case)
