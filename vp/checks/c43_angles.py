"""C43 Angle wrapping stays in range and preserves the angle (ioflo/aid/navigating.py).

Generator
  * exhaustive grid: angles -1080..1080 step 1/2, wraps +-{0, 1, 90, 180, 360, 1/3} and the
    default wrap, each pair run through wrap1 and wrap2 as Fractions, as ints (when both are
    integral) and as floats; heading pairs (desired, actual) on a coarser grid through delta.
    The functions are polymorphic, so exact arithmetic runs *through the implementation*.
  * Hypothesis: random finite floats (angles up to 1e18, wraps 1e-6..1e6 of either sign,
    angles placed on and next to multiples of the wrap, tiny angles, mixed int/float).
Oracle (only what the property statement says)
  * wrap == 0 returns the angle unchanged;
  * wrap1 lands between 0 and wrap (0 included, wrap excluded; closed for float results because
    float `%` may round to the modulus itself) and angle - result is a whole number of wraps;
  * wrap2 lands in [-|wrap|, +|wrap|] and angle - result is a whole number of 2*wrap;
  * delta(desired, actual, wrap) == wrap2(desired - actual, wrap) and satisfies the wrap2 rule.
  Exact results (int / Fraction) are judged exactly, float results with tolerance 1e-9 * |wrap|
  (all oracle arithmetic is done on exact Fractions of the operands).
"""
import math
from fractions import Fraction

from hypothesis import strategies as st

from vp.core.acc import Acc
from vp.core.hyp import campaign, Outcome, Budget

PROPERTY = "C43"
LEVEL = "exploration"
RULE = ("exhaustive grid (angles -1080..1080 step 1/2 x wraps +-{0,1,90,180,360,1/3} and default wrap, as "
        "Fraction / int / float; heading pairs for delta) plus Hypothesis random finite floats; oracle = range "
        "+ whole-number-of-turns congruence computed with exact Fractions, delta == wrap2(difference); "
        "non-trivial = |angle| > |wrap| or negative wrap (wrap != 0); distinct = (function family, "
        "representation, operands)")
ASSUMPTIONS = [
    "a full turn is `wrap` for wrap1 and 2*wrap for wrap2/delta (docstrings: wrap is the half circle for wrap2)",
    "float results are judged with tolerance 1e-9*|wrap| and closed ranges (float % may round to the modulus); "
    "int/Fraction results are judged exactly with the half-open wrap1 range",
    "either end of [-|wrap|, |wrap|] is accepted for wrap2 at exactly the half turn (the statement says closed range)",
    "angles and wraps are finite; |wrap| <= 1e6 for random floats",
]
META = {
    "level": "exploration",
    "text": "The whole rational grid is enumerated and executed by the polymorphic implementation in exact "
            "arithmetic, so on the grid the verdict is exact; random floats extend it to rounding behaviour. "
            "No proof is attempted: assurance is absence of a counterexample on the explored inputs.",
    "note": "Trusts Python Fraction arithmetic and the harness's 20-line range/congruence oracle.",
    "technique": "exhaustive exact-arithmetic enumeration through the implementation + Hypothesis random floats, "
                 "range/congruence oracle",
    "design_ref": "DESIGN.md section 3, C43",
}


def _preload():
    """Import the ioflo modules under test once in the parent process (vp.cli imports this module after
    env.use_repo()), so that the forked shard workers do not each recompile ioflo (~1 s per shard)."""
    try:
        from vp.core import env
        env.use_repo()
        import ioflo.aid.navigating
    except Exception:       # the lazy imports inside the check functions report the real error
        pass


_preload()

TOL = Fraction(1, 10 ** 9)
WRAP_ABS = [Fraction(0), Fraction(1), Fraction(90), Fraction(180), Fraction(360), Fraction(1, 3)]
WRAPS = [None] + sorted(set([w for w in WRAP_ABS] + [-w for w in WRAP_ABS]))   # None = default argument
ANGLES = [Fraction(k, 2) for k in range(-2160, 2161)]


def _frac(x):
    return x if isinstance(x, Fraction) else Fraction(x)


def _exact(x):
    return isinstance(x, (int, Fraction)) and not isinstance(x, bool)


def _num_ok(x):
    if isinstance(x, bool):
        return False
    if isinstance(x, (int, Fraction)):
        return True
    return isinstance(x, float) and math.isfinite(x)


def judge_wrap1(angle, wrap, res):
    """[(sig, what)] for res = wrap1(angle, wrap); wrap is the effective wrap (default resolved)."""
    if not _num_ok(res):
        return [("wrap1-not-a-number", "wrap1(%r, %r) = %r" % (angle, wrap, res))]
    if wrap == 0:
        if not (res == angle):
            return [("wrap1-zero-wrap-changes-angle", "wrap1(%r, 0) = %r" % (angle, res))]
        return []
    A, W, R = _frac(angle), _frac(wrap), _frac(res)
    tol = Fraction(0) if _exact(res) else TOL * abs(W)
    fails = []
    if _exact(res):
        ok = (0 <= R < W) if W > 0 else (W < R <= 0)
    else:
        ok = (-tol <= R <= W + tol) if W > 0 else (W - tol <= R <= tol)
    if not ok:
        fails.append(("wrap1-out-of-range", "wrap1(%r, %r) = %r is not in the half-open range between 0 and the wrap"
                      % (angle, wrap, res)))
    d = A - R
    k = round(d / W)
    if abs(d - k * W) > tol:
        fails.append(("wrap1-not-whole-turns", "wrap1(%r, %r) = %r differs from the angle by %s wraps"
                      % (angle, wrap, res, float(d / W))))
    return fails


def judge_wrap2(angle, wrap, res, name="wrap2"):
    """[(sig, what)] for res = wrap2(angle, wrap); for delta `angle` is desired - actual."""
    if not _num_ok(res):
        return [(name + "-not-a-number", "%s(%r, %r) = %r" % (name, angle, wrap, res))]
    if wrap == 0:
        if not (res == angle):
            return [(name + "-zero-wrap-changes-angle", "%s(%r, 0) = %r" % (name, angle, res))]
        return []
    A, W, R = _frac(angle), _frac(wrap), _frac(res)
    tol = Fraction(0) if _exact(res) else TOL * abs(W)
    fails = []
    if abs(R) > abs(W) + tol:
        fails.append((name + "-out-of-range", "%s(%r, %r) = %r is outside [-|wrap|, |wrap|]" % (name, angle, wrap, res)))
    d = A - R
    full = 2 * W
    k = round(d / full)
    if abs(d - k * full) > tol:
        fails.append((name + "-not-whole-turns", "%s(%r, %r) = %r differs from the angle by %s full turns"
                      % (name, angle, wrap, res, float(d / full))))
    return fails


def _coerce(rep, x):
    if x is None:
        return None
    if rep == "frac":
        return Fraction(x)
    if rep == "int":
        return int(x)
    if rep == "float":
        return float(x)
    return x        # "mixed": keep as generated


def classes_of(angle, wrap_eff):
    cls = []
    if wrap_eff == 0:
        return ["wrap0"]
    A, W = _frac(angle), _frac(wrap_eff)
    cls.append("neg-wrap" if W < 0 else "pos-wrap")
    if abs(A) > 2 * abs(W):
        cls.append("multi-turn")
    elif abs(A) > abs(W):
        cls.append("beyond-half-turn")
    else:
        cls.append("within-half-turn")
    if (A - W) % (2 * W) == 0:
        cls.append("exact-half-turn")
    if A % W == 0:
        cls.append("multiple-of-wrap")
    if A < 0:
        cls.append("neg-angle")
    return cls


def nontrivial_of(angle, wrap_eff):
    return wrap_eff != 0 and (abs(_frac(angle)) > abs(_frac(wrap_eff)) or wrap_eff < 0)


def run_case(case):
    """Execute one case dict. Returns (fails, nontrivial, classes, key)."""
    from ioflo.aid import navigating
    rep = case["rep"]
    kind = case["kind"]
    wrap = _coerce(rep, case.get("wrap"))
    fails = []
    if kind == "wrap":
        angle = _coerce(rep, case["angle"])
        key = ("wrap", rep, repr(angle), repr(wrap))
        w1 = 360 if wrap is None else wrap
        w2 = 180.0 if wrap is None else wrap
        try:
            r1 = navigating.wrap1(angle) if wrap is None else navigating.wrap1(angle, wrap)
            fails += judge_wrap1(angle, w1, r1)
        except Exception as ex:
            fails.append(("wrap1-raises-%s" % type(ex).__name__, "wrap1(%r, %r) raised %r" % (angle, wrap, ex)))
        try:
            r2 = navigating.wrap2(angle) if wrap is None else navigating.wrap2(angle, wrap)
            fails += judge_wrap2(angle, w2, r2)
        except Exception as ex:
            fails.append(("wrap2-raises-%s" % type(ex).__name__, "wrap2(%r, %r) raised %r" % (angle, wrap, ex)))
        cls = [rep] + ["w2:" + c for c in classes_of(angle, w2)]
        if wrap is None:
            cls.append("default-wrap")
        nt = nontrivial_of(angle, w2) or nontrivial_of(angle, w1)
        return fails, nt, cls, key
    # delta
    desired = _coerce(rep, case["desired"])
    actual = _coerce(rep, case["actual"])
    key = ("delta", rep, repr(desired), repr(actual), repr(wrap))
    w2 = 180.0 if wrap is None else wrap
    diff = desired - actual
    try:
        r = navigating.delta(desired, actual) if wrap is None else navigating.delta(desired, actual, wrap)
        fails += [(s, "desired=%r actual=%r (angle = desired - actual): %s" % (desired, actual, w))
                  for s, w in judge_wrap2(diff, w2, r, name="delta")]
        ref = navigating.wrap2(diff, w2)
        if not (r == ref):
            fails.append(("delta-differs-from-wrap2", "delta(%r, %r, %r) = %r but wrap2(desired - actual = %r, wrap) = %r"
                          % (desired, actual, wrap, r, diff, ref)))
    except Exception as ex:
        fails.append(("delta-raises-%s" % type(ex).__name__, "delta(%r, %r, %r) raised %r" % (desired, actual, wrap, ex)))
    cls = ["delta", rep] + ["d:" + c for c in classes_of(diff, w2)]
    return fails, nontrivial_of(diff, w2), cls, key


# ------------------------------------------------------------------------------- plan / work
NEXH = 8


def plan(tier):
    shards = [{"part": "grid", "i": i, "n": NEXH} for i in range(NEXH)]
    shards += [{"part": "delta", "i": i, "n": NEXH} for i in range(NEXH)]
    nrand = 4 if tier == "quick" else 16
    shards += [{"part": "rand", "i": i} for i in range(nrand)]
    return shards


def _grid_cases(i, n):
    for idx in range(i, len(ANGLES), n):
        a = ANGLES[idx]
        for w in WRAPS:
            yield {"kind": "wrap", "rep": "frac", "angle": a, "wrap": w}
            yield {"kind": "wrap", "rep": "float", "angle": float(a), "wrap": None if w is None else float(w)}
            if a.denominator == 1 and (w is None or w.denominator == 1):
                yield {"kind": "wrap", "rep": "int", "angle": int(a), "wrap": None if w is None else int(w)}


def _delta_grid(tier):
    step = Fraction(45) if tier == "quick" else Fraction(15, 2)
    vals = []
    v = Fraction(-720)
    while v <= 720:
        vals.append(v)
        v += step
    return vals


def _delta_cases(i, n, tier):
    vals = _delta_grid(tier)
    for idx in range(i, len(vals), n):
        d = vals[idx]
        for a in vals:
            for w in WRAPS:
                yield {"kind": "delta", "rep": "frac", "desired": d, "actual": a, "wrap": w}
                yield {"kind": "delta", "rep": "float", "desired": float(d), "actual": float(a),
                       "wrap": None if w is None else float(w)}
                if d.denominator == 1 and a.denominator == 1 and (w is None or w.denominator == 1):
                    yield {"kind": "delta", "rep": "int", "desired": int(d), "actual": int(a),
                           "wrap": None if w is None else int(w)}


def _strategy():
    wrap_common = st.sampled_from([360.0, 180.0, 90.0, 1.0, math.pi, 2 * math.pi, 0.5, 1.0 / 3.0, 100.0, 6400.0])
    wrap_mag = st.one_of(wrap_common, wrap_common, st.floats(min_value=1e-6, max_value=1e6, allow_nan=False))
    wrap = st.one_of(
        st.builds(lambda m, s: m * s, wrap_mag, st.sampled_from([1.0, 1.0, -1.0])),
        st.just(0.0), st.none())
    ang_free = st.one_of(
        st.floats(min_value=-1e4, max_value=1e4, allow_nan=False),
        st.floats(min_value=-1e18, max_value=1e18, allow_nan=False),
        st.sampled_from([1e-20, -1e-20, 5e-324, -5e-324, 0.0, -0.0, 1e-9, -1e-9]))

    def near_multiple(w, k, nudge):
        # angle on / one float next to a multiple of the wrap (w may be None or 0)
        base = (180.0 if w is None else w) * k
        if nudge == 1:
            base = math.nextafter(base, math.inf)
        elif nudge == -1:
            base = math.nextafter(base, -math.inf)
        elif nudge == 2:
            base += 1e-9
        elif nudge == -2:
            base -= 1e-9
        return base

    wrapcase = st.one_of(
        st.tuples(st.just("float"), ang_free, wrap),
        wrap.flatmap(lambda w: st.tuples(
            st.just("float"),
            st.builds(near_multiple, st.just(w), st.integers(-9, 9), st.sampled_from([0, 0, 1, -1, 2, -2])),
            st.just(w))),
        st.tuples(st.just("mixed"), st.integers(-10 ** 6, 10 ** 6), wrap),
    ).map(lambda t: {"kind": "wrap", "rep": t[0], "angle": t[1], "wrap": t[2]})
    deltacase = st.tuples(ang_free, ang_free, wrap).map(
        lambda t: {"kind": "delta", "rep": "float", "desired": t[0], "actual": t[1], "wrap": t[2]})
    head = st.floats(min_value=-720.0, max_value=720.0, allow_nan=False)
    deltacase2 = st.tuples(head, head, st.sampled_from([None, 180.0, -180.0, math.pi, 0.0])).map(
        lambda t: {"kind": "delta", "rep": "float", "desired": t[0], "actual": t[1], "wrap": t[2]})
    return st.one_of(wrapcase, wrapcase, deltacase, deltacase2)


def work(shard, seed, tier):
    acc = Acc()
    part = shard["part"]
    if part in ("grid", "delta"):
        gen = _grid_cases(shard["i"], shard["n"]) if part == "grid" else _delta_cases(shard["i"], shard["n"], tier)
        cnt = 0
        for case in gen:
            fails, nt, cls, key = run_case(case)
            cnt += 1
            acc.case(key=key, nontrivial=nt, classes=cls, sample=case if cnt % 9973 == 1 else None)
            for sig, what in fails:
                acc.fail(sig, what, case)
        acc.exhaustive = True
        acc.note("grid: every angle k/2 in [-1080,1080] x every wrap in +-{0,1,90,180,360,1/3} and the default, "
                 "as Fraction, float and (integral values) int; delta: every heading pair on the -720..720 grid "
                 "(step 45 quick / 7.5 thorough) x the same wraps")
        return acc

    n = 1500 if tier == "quick" else 40000

    def execute(case):
        fails, nt, cls, key = run_case(case)
        return Outcome(fails, nontrivial=nt, classes=["rand"] + cls, key=key, sample=case)

    campaign(acc, _strategy(), execute, n, seed * 1000 + shard["i"], budget=Budget(120 if tier == "quick" else 900))
    return acc


def replay(case):
    return run_case(case)[0]
