"""C24 Stream transports deliver queued bytes exactly once and in order.

Fault enumeration. For each transport (tcp Client, ClientTls, Incomer, IncomerTls on socket
doubles; serial Driver on a fake device server and on the real SerialNb over a fake pyserial
port) every queue of 1..k short messages is combined with EVERY sequence of send results
(would-block, 0, partial of every length, full) that the transport can meet until the queue is
drained or N service calls were made (enumerated with a small model of "service keeps sending
while sends are complete"); Hypothesis adds long random histories (many messages up to 2 KiB,
interleaved queueing / sending / receiving, TLS want-read on send, ...), and real
socketpair()s with minimal kernel buffers give real partial sends and EAGAINs.

Oracle (history invariant, checked after every step): the bytes accepted by the socket double
== the bytes recorded by the wire log (recording double and the real buffered WireLog behind
it) == a prefix of the concatenation of everything queued so far; the concatenation of what is
left in .txes == exactly the remaining suffix; a final service call whose sends all complete
drains the queue; .rxbs == concatenation of the chunks the double delivered, in arrival order
(== wire log rx). Message bytes are position coded (byte i of the stream is i % 251) so any
loss, repeat or reordering changes the stream.
"""
import itertools
import socket

from hypothesis import strategies as st

from vp.core.acc import Acc
from vp.core.hyp import campaign, Outcome, Budget
from vp.net import doubles as D

PROPERTY = "C24"
LEVEL = "fault_enumeration"
NCALLS = {"quick": 5, "thorough": 7}
RULE = ("per transport variant (Client, ClientTls, Incomer, IncomerTls, Driver+fake server, Driver+SerialNb+fake port): "
        "exhaustive enumeration of every send-result sequence (would-block, 0, every partial length, full) over every "
        "queue of 1-2 messages of length 1-3 (thorough: 1-3 messages of length 1-4) until drained or 5 (thorough 7; 6 / 5 for "
        "3-message queues of length <= 3 / 4) service calls, + exhaustive receive scripts (chunk lengths 1-3 / would-block, up to 4 items, "
        "serviceReceives and serviceReceiveOnce), + Hypothesis histories (<= 120 ops, messages up to 2 KiB, interleaved "
        "tx/rx, TLS want-read/want-write) + backlogs of 40 .. 1100 (thorough 4200) messages queued while the peer is stalled "
        "after a partial send + real socketpair cases with minimal kernel buffers; invariant checked after "
        "every step. non-trivial = the transport met >= 1 partial send and >= 1 would-block (real sockets: >= 1 partial "
        "progress and >= 1 no-progress service call); distinct = distinct (variant, operation list)")
ASSUMPTIONS = [
    "a would-block is BlockingIOError(EAGAIN) on plain sockets and SSLWantWriteError/SSLWantReadError on TLS sockets; "
    "a send never accepts more than it was offered",
    "WireLog buffer format 'TX <addr>\\n<data>\\n' / 'RX <addr>\\n<data>\\n' is adopted from the tree; only the data bytes are judged",
    "Client/ClientTls are brought to connected through connect() on a double whose connect_ex returns 0; "
    "SerialNb gets a fake pyserial port assigned to .serial (pyserial is not installed)",
    "after a scripted peer close (recv b'') the tcp transports stop servicing sends (cutoff), so the final "
    "drain is only demanded of histories without a delivered EOF",
]
META = {
    "level": LEVEL,
    "text": "The fault space (what each send returns) is enumerated completely up to the stated bound for every "
            "transport class and short queue, with the byte-stream invariant checked after every service call; "
            "random long histories and real kernel sockets with tiny buffers extend it beyond the bound.",
    "note": "Trusts the socket/serial doubles in vp.net.doubles (kernel-like clamping, would-block errors) and the "
            "position-coded stream oracle. TLS is exercised through a fake SSL context, not OpenSSL.",
    "technique": "exhaustive fault-script enumeration + Hypothesis histories + real socketpair, byte-stream history invariant",
    "design_ref": "DESIGN.md section 3, C24",
}

HA = ("127.0.0.1", 56000)
CA = ("127.0.0.1", 50001)
FAKE_VARIANTS = ["Client", "ClientTls", "Incomer", "IncomerTls", "DriverFake", "DriverSerialNb"]
REAL_VARIANTS = ["ClientReal", "IncomerReal", "DriverDeviceNbReal"]
TLS_VARIANTS = ("ClientTls", "IncomerTls")
INPROCESS = False      # set per tier by plan()


class HarnessError(BaseException):
    """A fault of the harness itself (never a verdict): propagates to exit code 2."""


def stream(start, n):
    """Position coded bytes start .. start+n-1 of a stream."""
    return bytes((i % 251) for i in range(start, start + n))


# ------------------------------------------------------------------ rigs: real transport on doubles
class Rig(object):
    """A transport under test plus uniform access to what its double saw."""

    def __init__(self, variant, bs, wl="both"):
        from ioflo.aio.serial import serialing
        from ioflo.aio import wiring
        D_ = D
        self.variant = variant
        self.inner = None
        self.wl = None
        self.sock = None
        if variant.startswith("Driver"):
            if variant == "DriverFake":
                self.dev = D_.FakeSerialServer(bs=bs)
                self.obj = serialing.Driver(server=self.dev)
                self.send_script = self.dev.scripts["send"]
                self.recv_script = self.dev.scripts["receive"]
                self.sendop, self.recvop = "send", "receive"
                self.accepted = lambda: bytes(self.dev.sent)
                self.iolog = self.dev.log
            else:
                nb = serialing.SerialNb(port="fake", bs=bs)
                nb.serial = D_.FakeSerialPort()
                nb.opened = True
                self.dev = nb.serial
                self.obj = serialing.Driver(server=nb)
                self.send_script = self.dev.scripts["write"]
                self.recv_script = self.dev.scripts["read"]
                self.sendop, self.recvop = "write", "read"
                self.accepted = lambda: bytes(self.dev.written)
                self.iolog = self.dev.log
            return
        # the wire log records both directions, or only one of them (`wl` = both | txonly | rxonly)
        self.wl_tx, self.wl_rx = wl != "rxonly", wl != "txonly"
        self.inner = wiring.WireLog(rx=self.wl_rx, tx=self.wl_tx, buffify=True)
        self.inner.reopen()
        self.wl = D_.RecordingWireLog(inner=self.inner)
        tls = variant in TLS_VARIANTS
        if variant in ("Client", "ClientTls"):
            self.obj, self.sock = D_.client_on_double(tls=tls, ha=HA, ca=CA, bufsize=bs, wlog=self.wl)
        else:
            self.obj, self.sock = D_.incomer_on_double(tls=tls, ha=HA, ca=CA, bs=bs, wlog=self.wl)
        self.send_script = self.sock.scripts["send"]
        self.recv_script = self.sock.scripts["recv"]
        self.sendop, self.recvop = "send", "recv"
        self.accepted = lambda: bytes(self.sock.sent)
        self.iolog = self.sock.log

    def delivered(self):
        """Chunks the double handed to the transport so far, in arrival order."""
        out = []
        for e in self.iolog:
            if e[0] == self.recvop and isinstance(e[-1], bytes) and e[-1]:
                out.append(e[-1])
        return out

    def send_events(self):
        """(offered length, accepted or None for a raised would-block) per send call."""
        out = []
        for e in self.iolog:
            if e[0] == self.sendop:
                out.append((len(e[1]), e[2] if isinstance(e[2], int) else None))
        return out

    def close(self):
        if self.inner is not None:
            self.inner.close()


def run_case(case):
    """Interpret one operation list against the real transport and the stream model.
    Returns (failures [(sig, what)], info dict)."""
    from ioflo.aid.consoling import getConsole
    console = getConsole()
    if case.get("profuse"):
        # the most talkative console level (-v 4): what is written to the console must not change what is transported
        import contextlib
        import io
        console.reinit(verbosity=4)
        try:
            with contextlib.redirect_stdout(io.StringIO()):
                return _run_case(case)
        finally:
            console.reinit(verbosity=0)
    if console._verbosity:
        console.reinit(verbosity=0)
    return _run_case(case)


def _run_case(case):
    variant = case["variant"]
    if variant in REAL_VARIANTS:
        return run_real(case)
    bs = case.get("bs", 8)
    fails = []
    # a second transport object of the same kind in the same process, with data queued and never serviced: the queues
    # of two instances are independent, whatever happens on the one must not show on the other
    other = Rig(variant, bs)
    OTHER = b"<<other instance>>"
    try:
        other.obj.tx(OTHER)
    except Exception:   # noqa: BLE001  (the operation under test is exercised below)
        other = None
    rig = Rig(variant, bs, case.get("wl", "both"))
    obj = rig.obj
    queued = bytearray()
    rxpos = case.get("rxbase", 0)      # position code of the first received byte (codes >= 128 are no UTF-8 on their own)
    info = {"partial": False, "wb": False, "drained": False, "rx_chunks": 0}

    def check(step, op):
        acc_ = rig.accepted()
        allq = bytes(queued)
        if acc_ != allq[:len(acc_)]:
            fails.append(("tx-stream:" + variant, "step %d %r: bytes accepted by the double %r are not a prefix of the queued "
                          "stream %r" % (step, op, acc_[-24:], allq[max(0, len(acc_) - 24):len(acc_)])))
            return False
        left = b"".join(bytes(d) for d in obj.txes)
        if left != allq[len(acc_):]:
            fails.append(("txes-suffix:" + variant, "step %d %r: remaining .txes %r != unsent suffix %r (accepted %d of %d)"
                          % (step, op, left[:24], allq[len(acc_):len(acc_) + 24], len(acc_), len(allq))))
            return False
        got = rig.delivered()
        exp_rx = b"".join(got)
        if bytes(obj.rxbs) != exp_rx:
            fails.append(("rx-stream:" + variant, "step %d %r: .rxbs %r != chunks delivered in arrival order %r"
                          % (step, op, bytes(obj.rxbs)[-24:], exp_rx[-24:])))
            return False
        if rig.wl is not None:
            if rig.wl.tx_bytes() != acc_:
                fails.append(("wirelog-tx:" + variant, "step %d %r: wire log recorded tx %r but the socket accepted %r"
                              % (step, op, rig.wl.tx_bytes()[-24:], acc_[-24:])))
                return False
            if rig.wl.rx_bytes() != exp_rx:
                fails.append(("wirelog-rx:" + variant, "step %d %r: wire log recorded rx %r but %r was delivered"
                              % (step, op, rig.wl.rx_bytes()[-24:], exp_rx[-24:])))
                return False
            exp_tx_buf = b"".join(("TX %s\n" % (a,)).encode() + d + b"\n" for a, d in rig.wl.txs)
            exp_rx_buf = b"".join(("RX %s\n" % (a,)).encode() + d + b"\n" for a, d in rig.wl.rxs)
            want_tx = exp_tx_buf if rig.wl_tx else None
            want_rx = exp_rx_buf if rig.wl_rx else None
            if rig.inner.getTx() != want_tx or rig.inner.getRx() != want_rx:
                fails.append(("wirelog-buffer" + ("" if case.get("wl", "both") == "both" else "@" + case["wl"]),
                              "step %d %r: WireLog(rx=%r, tx=%r) buffers tx %r rx %r do not hold the records written to it (tx %r rx %r)"
                              % (step, op, rig.wl_rx, rig.wl_tx, (rig.inner.getTx() or b"")[-30:], (rig.inner.getRx() or b"")[-30:],
                                 (want_tx or b"")[-30:], (want_rx or b"")[-30:])))
                return False
        return True

    step = -1
    try:
        ok = True
        for step, op in enumerate(case["ops"]):
            kind = op[0]
            try:
                if kind == "tx":
                    data = stream(len(queued), op[1])
                    queued.extend(data)
                    obj.tx(data)
                elif kind in ("svtx", "svtx1"):
                    toks = op[1] if len(op) > 1 else []
                    rig.send_script.push(*toks)
                    if kind == "svtx1" and hasattr(obj, "serviceTxOnce"):
                        obj.serviceTxOnce()
                    else:
                        obj.serviceTxes()
                elif kind in ("svrx", "svrx1"):
                    items = op[1] if len(op) > 1 else []
                    for it in items:
                        if it is None:
                            rig.recv_script.push(D.WB)
                        elif it == "eof":
                            rig.recv_script.push(b"")
                        else:
                            rig.recv_script.push(stream(rxpos, it))
                            rxpos += it
                    if kind == "svrx1":
                        obj.serviceReceiveOnce()
                    else:
                        obj.serviceReceives()
                else:
                    raise HarnessError("unknown op %r" % (op,))
            except HarnessError:
                raise
            except Exception as ex:
                fails.append((D.exc_site(ex) + ":" + variant, "step %d %r raised %r" % (step, op, ex)))
                ok = False
                break
            if not check(step, op):
                ok = False
                break
        eof = rig.sock is not None and any(e[0] == "recv" and e[-1] == b"" for e in rig.iolog if isinstance(e[-1], bytes))
        if ok and not eof:
            # final drain: every further send completes, so one service call must empty the queue
            rig.send_script.items.clear()
            try:
                obj.serviceTxes()
            except Exception as ex:
                fails.append((D.exc_site(ex) + ":" + variant, "final drain raised %r" % (ex,)))
            else:
                if check(len(case["ops"]), ("drain",)):
                    if rig.accepted() != bytes(queued) or obj.txes:
                        fails.append(("not-drained:" + variant, "a service call whose sends all complete left %d queued "
                                      "bytes unsent" % (len(queued) - len(rig.accepted()))))
                    else:
                        info["drained"] = True
        if other is not None and ok:
            left = b"".join(bytes(d) for d in other.obj.txes)
            if left != OTHER or other.accepted():
                fails.append(("instances-share-state:" + variant, "another %s object of this process had %r queued and was never "
                              "serviced; afterwards its queue holds %r and its socket accepted %r" % (variant, OTHER, left[:40], other.accepted()[:40])))
        evs = rig.send_events()
        info["partial"] = any(n is not None and 0 < n < off for off, n in evs)
        pushed = []
        for o in case["ops"]:
            if o[0] in ("svtx", "svtx1") and len(o) > 1:
                pushed.extend(o[1])
        info["wb"] = any(t in (D.WB, D.WANT_READ, D.WANT_WRITE) for t in pushed[:rig.send_script.used])
        info["rx_chunks"] = len(rig.delivered())
        info["sends"] = len(evs)
    finally:
        rig.close()
    return fails, info


# ------------------------------------------------------------------ real kernel sockets with tiny buffers
class RecSock(object):
    """Thin recording proxy around a real socket (harness side observation of partial / EAGAIN)."""

    def __init__(self, real):
        self.real = real
        self.events = []

    def send(self, data):
        try:
            n = self.real.send(data)
        except BlockingIOError:
            self.events.append((len(data), None))
            raise
        self.events.append((len(data), n))
        return n

    def __getattr__(self, name):
        return getattr(self.real, name)


def run_real(case):
    """ops: ["tx", n] queue n bytes; ["svtx"] service; ["drain", n] peer reads up to n bytes."""
    from ioflo.aio.tcp import clienting, serving
    from ioflo.aio.serial import serialing
    variant = case["variant"]
    fails = []
    info = {"partial": False, "wb": False, "drained": False, "rx_chunks": 0}
    a, b = socket.socketpair()
    try:
        a.setblocking(False)
        b.setblocking(False)
        a.setsockopt(socket.SOL_SOCKET, socket.SO_SNDBUF, 1)     # kernel clamps to its minimum
        b.setsockopt(socket.SOL_SOCKET, socket.SO_RCVBUF, 1)
        wl = None
        rec = None
        if variant == "DriverDeviceNbReal":
            dev = serialing.DeviceNb(port="unused")
            dev.fd = a.fileno()
            dev.opened = True
            obj = serialing.Driver(server=dev)
        else:
            wl = D.RecordingWireLog()
            rec = RecSock(a)
            if variant == "ClientReal":
                obj = clienting.Client(ha=HA, wlog=wl)
                obj.cs = rec
                obj.accepted = True
            else:
                obj = serving.Incomer(ha=HA, ca=CA, bs=4096, cs=rec, wlog=wl)
        queued = bytearray()
        got = bytearray()
        progress_partial = noprogress = False

        def pull(limit):
            while limit > 0:
                try:
                    chunk = b.recv(min(limit, 65536))
                except BlockingIOError:
                    return
                if not chunk:
                    return
                got.extend(chunk)
                limit -= len(chunk)

        def check(step, op):
            allq = bytes(queued)
            left = b"".join(bytes(d) for d in obj.txes)
            nacc = len(allq) - len(left)
            if left != allq[len(allq) - len(left):] or nacc < len(got):
                fails.append(("txes-suffix:" + variant, "step %d %r: remaining .txes is not the unsent suffix of the queued stream"
                              % (step, op)))
                return False
            if bytes(got) != allq[:len(got)]:
                fails.append(("tx-stream:" + variant, "step %d %r: bytes read by the peer are not a prefix of the queued stream "
                              "(first difference at byte %d of %d read, %d queued)"
                              % (step, op, next((i for i in range(min(len(got), len(allq))) if got[i] != allq[i]),
                                                min(len(got), len(allq))), len(got), len(allq))))
                return False
            if wl is not None and wl.tx_bytes() != allq[:nacc]:
                fails.append(("wirelog-tx:" + variant, "step %d %r: wire log tx record (%d bytes) != bytes accepted by the kernel (%d)"
                              % (step, op, len(wl.tx_bytes()), nacc)))
                return False
            return True

        ok = True
        for step, op in enumerate(case["ops"]):
            before = sum(len(d) for d in obj.txes)
            try:
                if op[0] == "tx":
                    data = stream(len(queued), op[1])
                    queued.extend(data)
                    obj.tx(data)
                elif op[0] == "svtx":
                    obj.serviceTxes()
                    after = sum(len(d) for d in obj.txes)
                    if before and after == before:
                        noprogress = True
                    elif after and after < before:
                        progress_partial = True
                elif op[0] == "drain":
                    pull(op[1])
            except Exception as ex:
                fails.append((D.exc_site(ex) + ":" + variant, "step %d %r raised %r" % (step, op, ex)))
                ok = False
                break
            if not check(step, op):
                ok = False
                break
        if ok:
            for _ in range(100000):
                if not obj.txes:
                    break
                pull(1 << 30)
                obj.serviceTxes()
            pull(1 << 30)
            if check(len(case["ops"]), ("final",)):
                if obj.txes or bytes(got) != bytes(queued):
                    fails.append(("not-drained:" + variant, "peer received %d of %d queued bytes after draining"
                                  % (len(got), len(queued))))
                else:
                    info["drained"] = True
        if rec is not None:
            info["partial"] = any(n is not None and 0 < n < off for off, n in rec.events)
            info["wb"] = any(n is None for off, n in rec.events)
        else:
            info["partial"], info["wb"] = progress_partial, noprogress
        info["sends"] = len(rec.events) if rec is not None else 0
    finally:
        a.close()
        b.close()
    return fails, info


# ------------------------------------------------------------------ exhaustive script enumeration (model driven)
def scripts(lens, ncalls):
    """Yield (tokens, calls): every sequence of send results the transport can meet for a queue
    with message lengths `lens`, until drained or `ncalls` service calls. Model: a service call
    keeps sending the head of the queue while each send completes."""
    out = []

    def call(rem, used):                      # at the start of a service call
        if not rem or used == ncalls:
            yield list(out), used
            return
        for x in send(rem, used):
            yield x

    def send(rem, used):                      # inside service call number `used`
        if not rem:
            yield list(out), used + 1
            return
        head = rem[0]
        for tok in (D.WB, 0):
            out.append(tok)
            for x in call(rem, used + 1):
                yield x
            out.pop()
        for k in range(1, head):
            out.append(k)
            for x in call((head - k,) + rem[1:], used + 1):
                yield x
            out.pop()
        out.append(head)
        for x in send(rem[1:], used):
            yield x
        out.pop()

    return call(tuple(lens), 0)


def rx_scripts(maxitems):
    """Every receive script of 1..maxitems items, item = chunk length 1-3 or None (would-block)."""
    for n in range(1, maxitems + 1):
        for items in itertools.product((None, 1, 2, 3), repeat=n):
            yield list(items)


def bound(lens, tier):
    """Service-call bound for a queue: quick 5; thorough 7 for 1-2 messages, 6 for 3 messages of
    length <= 3, 5 for 3 messages with a length-4 message (keeps thorough within minutes)."""
    if len(lens) < 3:
        return NCALLS[tier]
    return 6 if max(lens) <= 3 else 5


def lens_space(tier):
    if tier == "quick":
        one = [(a,) for a in (1, 2, 3)]
        two = [(a, b) for a in (1, 2, 3) for b in (1, 2, 3)]
        return one + two
    one = [(a,) for a in (1, 2, 3, 4)]
    two = [(a, b) for a in (1, 2, 3, 4) for b in (1, 2, 3, 4)]
    three = [(a, b, c) for a in (1, 2, 3, 4) for b in (1, 2, 3, 4) for c in (1, 2, 3, 4)]
    return one + two + three


def _freeze():
    """plan() runs in the parent just before the worker pool forks: move everything allocated so far
    (ioflo, hypothesis) out of the collector's reach so that collections in the children do not touch
    (and copy) the inherited pages - measured 3-10x faster shards on this VM."""
    import gc
    gc.collect()
    gc.freeze()


def plan(tier):
    import ioflo.aio.tcp.serving, ioflo.aio.tcp.clienting, ioflo.aio.serial.serialing, ioflo.aio.wiring  # noqa: preload before fork
    global INPROCESS
    # quick needs ~15 s of one core: run it in this process (forked pool workers are 3-10x slower per
    # case on this VM, see _freeze); thorough fans out over the pool
    INPROCESS = tier == "quick"
    _freeze()
    shards = []
    space = lens_space(tier)
    for v in FAKE_VARIANTS:
        if tier == "quick":
            groups = [space]
        else:
            groups = [[l for l in space if len(l) <= 2]]
            groups += [[l for l in space if len(l) == 3 and l[0] == a] for a in (1, 2, 3, 4)]
        for g in groups:
            shards.append({"part": "exh", "variant": v, "lens": [list(l) for l in g]})
        shards.append({"part": "rx", "variant": v})
        shards.append({"part": "backlog", "variant": v})
    nrand = 6 if tier == "quick" else 30
    for i in range(nrand):
        shards.append({"part": "rand", "i": i, "variant": FAKE_VARIANTS[i % len(FAKE_VARIANTS)]})
    nreal = 3 if tier == "quick" else 12
    for i in range(nreal):
        shards.append({"part": "real", "i": i, "variant": REAL_VARIANTS[i % len(REAL_VARIANTS)]})
    # heaviest first so the pool balances
    shards.sort(key=lambda s: -sum(4 ** sum(l) for l in s["lens"]) if s["part"] == "exh" else 0)
    return shards


def classes_of(variant, info, fails):
    cls = [variant]
    nt = bool(info.get("partial") and info.get("wb"))
    cls.append("nontrivial" if nt else ("partial-only" if info.get("partial") else
                                         ("wb-only" if info.get("wb") else "no-fault")))
    if info.get("drained"):
        cls.append("drained")
    if info.get("rx_chunks"):
        cls.append("rx-chunks")
    return nt, cls


def work(shard, seed, tier):
    acc = Acc()
    part = shard["part"]
    variant = shard["variant"]
    if part == "exh":
        for lens in shard["lens"]:
            ncalls = bound(lens, tier)
            n = 0
            for toks, calls in scripts(lens, ncalls):
                ops = [["tx", l] for l in lens] + [["svtx", toks]] + [["svtx"] for _ in range(calls - 1)]
                case = {"variant": variant, "ops": ops}
                if n % 5 == 3:
                    case["wl"] = "txonly"        # a wire log that records one direction only
                elif n % 7 == 3:
                    case["wl"] = "rxonly"
                fails, info = run_case(case)
                nt, cls = classes_of(variant, info, fails)
                cls.append("msgs=%d" % len(lens))
                if case.get("wl"):
                    cls.append("wirelog-" + case["wl"])
                acc.case(key=(variant, ops), nontrivial=nt, classes=cls, sample=case if (n % 997 == 5) else None)
                for sig, what in fails:
                    acc.fail(sig, what, case)
                n += 1
        acc.exhaustive = True
        acc.note("every send-result script for message lengths %s.. enumerated up to the service-call bound" % (shard["lens"][0],))
        return acc
    if part == "rx":
        todo = list(rx_scripts(4))
        todo += [items + ["eof", 2] for items in rx_scripts(2)]      # chunks scripted after a peer close
        for items in todo:
            for once in (False, True):
                for per in range(1, len(items) + 1):                 # items made available per service call
                    kind = "svrx1" if once else "svrx"
                    ops = [[kind, items[i:i + per]] for i in range(0, len(items), per)]
                    ops += [[kind] for _ in range(len(items))]
                    case = {"variant": variant, "ops": ops, "bs": 2}
                    if (len(items) + per) % 4 == 0:
                        # a quarter of the receive scripts with binary data (not UTF-8) under the most talkative console level
                        case.update(profuse=True, rxbase=126)
                    fails, info = run_case(case)
                    nchunks = sum(1 for it in items if isinstance(it, int))
                    nt = nchunks >= 2 and None in items
                    acc.case(key=(variant, ops), nontrivial=nt,
                             classes=[variant + "-rx", "rx-nontrivial" if nt else "rx-simple"] +
                                     (["rx-eof"] if "eof" in items else []) + (["rx-binary-under-profuse-console"] if case.get("profuse") else []),
                             sample=case if (items == [2, None, 3, 1] and once and per == 2) else None)
                    for sig, what in fails:
                        acc.fail(sig, what, case)
        acc.exhaustive = True
        acc.note("every receive script of <= 4 items (chunk length 1-3 / would-block) x every batching enumerated")
        return acc
    if part == "backlog":
        # a long backlog: the peer stalls after a partial send, the application keeps queueing, then the peer recovers
        for n in ([40, 257, 300, 1100] if tier == "quick" else [40, 100, 255, 256, 257, 300, 513, 1100, 2100, 4200]):
            for size in (1, 3):
                ops = [["tx", 4], ["svtx", [2, D.WB]]] + [["tx", size] for _ in range(n)] + [["svtx", [D.WB]], ["svtx"]]
                case = {"variant": variant, "ops": ops}
                fails, info = run_case(case)
                nt, cls = classes_of(variant, info, fails)
                acc.case(key=(variant, "backlog", n, size), nontrivial=nt, classes=cls + ["backlog", "backlog>256" if n > 256 else "backlog<=256"],
                         sample={"variant": variant, "ops": ops[:4], "n_ops": len(ops)} if (n == 300 and size == 3) else None)
                for sig, what in fails:
                    acc.fail(sig, what, case)
        return acc
    if part == "rand":
        n = 200 if tier == "quick" else 1500
        strat = history_strategy(variant)

        def execute(ops):
            case = {"variant": variant, "ops": ops}
            fails, info = run_case(case)
            nt, cls = classes_of(variant, info, fails)
            cls.append("rand")
            nb = sum(o[1] for o in ops if o[0] == "tx")
            cls.append("bytes<=64" if nb <= 64 else ("bytes<=2K" if nb <= 2048 else "bytes>2K"))
            return Outcome(fails, nontrivial=nt, classes=cls, key=(variant, ops),
                           sample={"variant": variant, "ops": ops[:12], "n_ops": len(ops)})

        campaign(acc, strat, execute, n, seed * 1000 + shard["i"],
                 to_case=lambda ops: {"variant": variant, "ops": ops},
                 budget=Budget(60 if tier == "quick" else 400))
        return acc
    if part == "real":
        n = 6 if tier == "quick" else 60
        strat = real_strategy()

        def execute(ops):
            case = {"variant": variant, "ops": ops}
            fails, info = run_case(case)
            nt, cls = classes_of(variant, info, fails)
            cls.append("real-socketpair")
            return Outcome(fails, nontrivial=nt, classes=cls, key=(variant, ops),
                           sample={"variant": variant, "ops": ops[:12], "n_ops": len(ops)})

        campaign(acc, strat, execute, n, seed * 1000 + 500 + shard["i"],
                 to_case=lambda ops: {"variant": variant, "ops": ops},
                 budget=Budget(60 if tier == "quick" else 300), shrink_examples=60)
        return acc
    raise RuntimeError("unknown shard %r" % (shard,))


def history_strategy(variant):
    """Histories are built from phrases (queue; queue + service with 1-5 scripted send results; service;
    receive) so that most of them meet both a partial send and a would-block (see class counts)."""
    toks = [st.just(D.WB), st.just(D.WB), st.just(0), st.integers(1, 6), st.integers(1, 6), st.integers(1, 400),
            st.just(D.FULL)]
    if variant in TLS_VARIANTS:
        toks.append(st.sampled_from([D.WANT_READ, D.WANT_WRITE]))
    tok = st.one_of(*toks)
    sizes = st.one_of(st.integers(0, 6), st.integers(2, 80), st.integers(200, 2048))      # 0: an empty message
    rxitem = st.one_of(st.none(), st.integers(1, 20), st.integers(1, 5))
    sv = st.builds(lambda t: ["svtx", t], st.lists(tok, min_size=1, max_size=5))
    kinds = [
        st.builds(lambda n: [["tx", n]], sizes),
        st.builds(lambda n, s1: [["tx", n], s1], sizes, sv),
        st.builds(lambda n, m, s1, s2: [["tx", n], ["tx", m], s1, s2], sizes, sizes, sv, sv),
        st.builds(lambda s1: [s1], sv),
        st.builds(lambda t: [["svrx", t]], st.lists(rxitem, max_size=4)),
        st.builds(lambda t: [["svrx1", t]], st.lists(rxitem, max_size=3)),
    ]
    if variant.startswith("Driver"):
        kinds.append(st.builds(lambda t: [["svtx1", t]], st.lists(tok, max_size=2)))
    return st.lists(st.one_of(*kinds), min_size=3, max_size=60).map(
        lambda ps: [op for ph in ps for op in ph][:120])


def real_strategy():
    """Mostly messages larger than the (minimal) kernel buffer so that real partial sends and EAGAINs occur."""
    big = st.integers(5000, 60000)
    op = st.one_of(
        st.builds(lambda n: ["tx", n], st.one_of(st.integers(1, 2000), big, big)),
        st.builds(lambda n: ["tx", n], big),
        st.just(["svtx"]), st.just(["svtx"]), st.just(["svtx"]),
        st.builds(lambda n: ["drain", n], st.one_of(st.integers(1, 3000), st.integers(1, 100000))),
    )
    return st.lists(op, min_size=5, max_size=40)


def replay(case):
    case = dict(case)
    case["ops"] = [list(o) for o in case["ops"]]
    fails, _ = run_case(case)
    return fails
