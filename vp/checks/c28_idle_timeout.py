"""C28 Idle timeouts drop only idle connections.

Generator: schedules over an http Valet (WSGI) or Porter with 1..3 connections: when each
connection is accepted, request bytes (HTTP/1.0 or 1.1, Connection: close / keep-alive / none,
optional body) trickling in generated pieces at generated times, peer EOF, WSGI responses
streamed over many service rounds (yields of b'' = nothing to send yet, or data; with
Content-Length or chunked), per-round send capacity of the socket, serviceAll() times in
exact eighths of the timeout (simulated store time), timeout values. Every schedule is run
twice with the same doubles: plain (Server/Incomer) and TLS (ServerTls/IncomerTls with a fake
ssl context whose handshake completes at once).

Oracle, from the socket double's own log of every recv/send that moved bytes (stamped with the
store time at which ioflo performed it):
  * the server closes a connection for idleness (closeConnection called from
    serviceConnects on a connection whose peer has not closed) at service time t only if
    t - (last byte sent or received, or accept) >= timeout;
  * never when the head of a request that makes the connection persistent (HTTP/1.1 without
    Connection: close, HTTP/1.0 with keep-alive) had been received in an earlier round;
  * the plain run and the TLS run of a schedule close the same connections in the same rounds
    for the same reason.
"""
import os
import traceback

from hypothesis import strategies as st

from vp.core import env
from vp.core.acc import Acc
from vp.core.hyp import campaign, Outcome, Budget
from vp.net import tcp2_doubles as dbl

PROPERTY = "C28"
LEVEL = "exploration"
INPROCESS = True      # a case costs ~1 ms; forking a worker pool costs more than the quick search
RULE = ("Hypothesis-generated schedules (<= 30 steps of [dt in eighths of the timeout, events open/data/eof per "
        "connection], 1..3 connections with generated request shape, piece boundaries, streamed WSGI response script and "
        "send capacity) executed against Valet or Porter built through their constructors with socket doubles, once plain "
        "and once TLS (fake context); oracle = every idle closure has t - last logged rx/tx/accept >= timeout and the "
        "connection is not known persistent, plus equal closure traces plain vs TLS; non-trivial = some service round "
        "found an open non-persistent connection whose last activity was < timeout ago while the activity before it was "
        ">= timeout ago (only the restart of the idle period keeps it open), or a persistent connection was serviced "
        ">= timeout after its last activity; distinct = distinct schedule+parameters")
ASSUMPTIONS = [
    "'bytes sent or received' are the bytes that passed through the connection socket's send()/recv() as performed by "
    "ioflo (bytes waiting in the kernel / double before serviceAll reads them do not count as received yet); the idle "
    "period of a fresh connection starts when the server accepts it",
    "a closure is 'for idleness' when closeConnection is called inside serviceConnects for a connection not flagged cutoff "
    "(observed through instance-level wrappers around closeConnection / serviceConnects; the ioflo classes are unmodified)",
    "persistence is known to the server from the round in which the last byte of the request head was received",
    "only well-formed requests are generated; peers have distinct addresses; the fake TLS handshake completes in the "
    "accepting serviceConnects call, so TLS and plain schedules are comparable round by round",
]
META = {
    "level": LEVEL,
    "text": "Activity/idle schedules around the timeout are generated for Valet and Porter and run on plain and on TLS "
            "incomers with simulated time; each closure the server makes for idleness is checked against the socket "
            "double's own byte log and against the persistence of the request, and the plain and TLS runs must agree.",
    "note": "Trusts the socket doubles, the fake TLS context and the classification of closures by call site. Safety only "
            "(nothing is demanded about when an idle connection must be dropped, except that plain and TLS agree).",
    "technique": "Hypothesis-generated timing schedules on socket doubles; history oracle from the double's byte log + plain/TLS differential",
    "design_ref": "DESIGN.md section 3, C28",
}

HOST = "127.0.0.1"
PORT = 8443
TIMEOUTS = [0.5, 1.0, 2.0, 4.0]


def _site(ex):
    site = "?"
    for fs in traceback.extract_tb(ex.__traceback__):
        if "ioflo" in fs.filename:
            site = "%s:%s" % (os.path.basename(fs.filename), fs.name)
    return site


def build_request(cid, spec):
    body = b"x" * spec["body"]
    lines = ["%s /c%d HTTP/%s" % ("POST" if body else "GET", cid, spec["ver"]), "Host: h"]
    if spec["hdr"]:
        lines.append("Connection: " + spec["hdr"])
    if body:
        lines.append("Content-Length: %d" % len(body))
    head = ("\r\n".join(lines) + "\r\n\r\n").encode("ascii")
    return head, body


def persistent(spec):
    if spec["ver"] == "1.1":
        return spec["hdr"] != "close"
    return spec["hdr"] == "keep-alive"


def pieces(data, cuts):
    """split data at the given sixteenths"""
    idx = sorted(set(min(len(data) - 1, max(1, len(data) * c // 16)) for c in cuts)) if len(data) > 1 else []
    out, last = [], 0
    for i in idx:
        if i > last:
            out.append(data[last:i])
            last = i
    out.append(data[last:])
    return [p for p in out if p]


class Conn(object):
    def __init__(self, cid, spec, store, second_ok=False):
        self.cid = cid
        self.spec = spec
        self.ca = (HOST, 50001 + cid)
        self.sock = dbl.FakeAccepted(store, (HOST, PORT), self.ca, sendcap=spec["sendcap"] or None)
        head, body = build_request(cid, spec)
        self.head_len = len(head)
        self.parts = pieces(head + body, spec["cuts"])
        self.next = 0
        self.opened = False
        self.persistent = persistent(spec)
        self.closure = None          # (round, reason)
        # optionally a SECOND request on the same (persistent) connection that ends the persistence (`Connection: close`),
        # its head arriving on its own, its body in two later pieces: from the round in which that head is complete the
        # connection is an ordinary non persistent one again, whose idle period restarts with every byte
        self.second = bool(spec.get("second")) and second_ok and self.persistent
        self.second_end = None
        if self.second:
            head2 = ("POST /c%d HTTP/1.1\r\nHost: h\r\nConnection: close\r\nContent-Length: 6\r\n\r\n" % cid).encode("ascii")
            self.parts = [head + body, head2, b"zzz", b"zzz"]
            self.second_end = len(head) + len(body) + len(head2)

    def feed(self):
        if self.second:
            if self.next < len(self.parts):
                self.sock.rx.extend(self.parts[self.next])
                self.next += 1
            return
        self.sock.rx.extend(self.parts[self.next % len(self.parts)])
        self.next += 1

    def known_persistent(self):
        got = self.sock.received
        return self.persistent and got >= self.head_len and not (self.second and got >= self.second_end)


def make_app(conns):
    def app(environ, start_response):
        cid = int(environ["PATH_INFO"][2:])
        spec = conns[cid].spec
        headers = [("Content-Type", "text/plain")]
        if spec["clen"]:
            headers.append(("Content-Length", str(sum(spec["yields"]))))
        start_response("200 OK", headers)
        for n in spec["yields"]:
            yield b"y" * n
    return app


def run_server(case, tls):
    """-> dict(fails, closures per cid, critical, persisted_outlived, classes, error)"""
    env.quiet_ioflo()
    from ioflo.base import storing
    from ioflo.aio.http import serving
    mode = "tls" if tls else "plain"
    T = float(case["timeout"])
    unit = T / 8.0
    store = storing.Store(stamp=0.0)
    conns = [Conn(i, spec, store, second_ok=case["kind"] == "valet") for i, spec in enumerate(case["conns"])]
    kwa = dict(store=store, ha=(HOST, PORT), timeout=T)
    if tls:
        kwa.update(scheme="https", context=dbl.FakeTlsContext())
    if case.get("wlog"):
        # a wire log attached to the server (in memory): logging what is received or sent is activity like any other
        from ioflo.aio.wiring import WireLog
        wl = WireLog(buffify=True)
        wl.reopen()
        kwa["wlog"] = wl
    if case["kind"] == "valet":
        server = serving.Valet(app=make_app(conns), **kwa)
    else:
        server = serving.Porter(**kwa)
    listen = dbl.FakeListen(store, (HOST, PORT))
    server.servant.ss = listen
    server.servant.opened = True

    phase = ["other"]
    calls = []
    orig_close, orig_connects = server.closeConnection, server.serviceConnects

    def spy_close(ca):
        ix = server.servant.ixes.get(ca)
        calls.append((ca, phase[0], bool(ix.cutoff) if ix is not None else None))
        return orig_close(ca)

    def spy_connects():
        phase[0] = "connects"
        try:
            return orig_connects()
        finally:
            phase[0] = "other"

    server.closeConnection = spy_close
    server.serviceConnects = spy_connects

    out = {"fails": [], "classes": set(), "critical": False, "outlived": False, "error": None, "closures": {}}
    by_ca = {c.ca: c for c in conns}
    units = 0
    try:
        for r, (dt, evs) in enumerate(case["steps"]):
            units += dt
            t = units * unit
            store.changeStamp(t)
            for ev, cid in evs:
                if cid >= len(conns):
                    continue
                c = conns[cid]
                if c.sock.closed_at is not None:
                    continue
                if not c.opened:
                    c.opened = True
                    listen.queue.append(c.sock)
                if ev == "data" and not c.sock.eof:
                    c.feed()
                elif ev == "eof":
                    c.sock.eof = True
            # what the oracle knows before the round
            known = {}
            for c in conns:
                if c.sock.accepted_at is None or c.sock.closed_at is not None:
                    continue
                acts = sorted(set([c.sock.accepted_at] + [s for s, _, _ in c.sock.log]))
                pk = c.known_persistent()
                known[c.cid] = (acts, pk, c.sock.log[-1][1] if c.sock.log else "accept")
                if not pk and len(acts) >= 2 and t - acts[-1] < T <= t - acts[-2]:
                    out["critical"] = True
                if pk and t - acts[-1] >= T:
                    out["outlived"] = True
                c.sock.new_round()
            del calls[:]
            try:
                server.serviceAll()
            except Exception as ex:
                out["error"] = ("exception-%s@%s" % (type(ex).__name__, _site(ex)),
                                "%s %s serviceAll in round %d (t=%s) raised %r" % (mode, case["kind"], r, t, ex))
                break
            for ca, ph, cutoff in calls:
                c = by_ca.get(ca)
                if c is None or c.closure is not None:
                    continue
                idle = ph == "connects" and not (case["kind"] == "valet" and cutoff)
                reason = "idle" if idle else ("peer-closed" if ph == "connects" else "done")
                c.closure = (r, reason)
                out["classes"].add("closure:" + reason)
                if not idle or c.cid not in known:
                    continue
                acts, pk, lastkind = known[c.cid]
                if pk:
                    out["fails"].append((
                        "persistent-connection-dropped@" + mode,
                        "%s %s: connection %d (HTTP/%s Connection:%r, head received) closed by the idle timer in round %d "
                        "at t=%s, last activity t=%s, timeout %s" % (mode, case["kind"], c.cid, c.spec["ver"], c.spec["hdr"],
                                                                      r, t, acts[-1], T)))
                elif t - acts[-1] < T:
                    out["fails"].append((
                        "active-connection-dropped@" + mode,
                        "%s %s: connection %d closed for idleness in round %d at t=%s although its last %s was at t=%s, "
                        "only %s ago (timeout %s)" % (mode, case["kind"], c.cid, r, t, lastkind, acts[-1], t - acts[-1], T)))
                else:
                    out["classes"].add("idle-closure-after-timeout")
    finally:
        for c in conns:
            c.sock.close()
    out["closures"] = {c.cid: c.closure for c in conns}
    for c in conns:
        if c.opened:
            out["classes"].add("conn:HTTP/%s-%s-%s" % (c.spec["ver"], c.spec["hdr"] or "none",
                                                         "persistent" if c.persistent else "transient"))
            if c.second and c.sock.received >= c.second_end:
                out["classes"].add("persistent-connection-ended-by-a-close-request")
            if c.sock.sendcap:
                out["classes"].add("sendcap")
            if any(k == "tx" for _, k, _ in c.sock.log):
                out["classes"].add("response-bytes-sent")
            if len([1 for _, k, _ in c.sock.log if k == "rx"]) >= 3:
                out["classes"].add("request-trickled>=3")
    return out


def run_case(case):
    plain = run_server(case, False)
    tls = run_server(case, True)
    fails = []
    seen = set()
    for out in (plain, tls):
        for sig, what in out["fails"]:
            if sig not in seen:
                seen.add(sig)
                fails.append((sig, what))
    classes = {"kind:" + case["kind"], "timeout:%s" % case["timeout"], "conns:%d" % len(case["conns"])}
    if case.get("wlog"):
        classes.add("wire-log-attached")
    classes |= plain["classes"] | tls["classes"]
    if plain["error"] or tls["error"]:
        pe, te = plain["error"], tls["error"]
        if bool(pe) != bool(te) or (pe and te and pe[0] != te[0]):
            sig, what = te or pe
            fails.append(("plain-tls-divergence:" + sig,
                          "plain and TLS runs of the same schedule differ: plain %s, tls %s" % (pe and pe[1], te and te[1])))
        else:
            classes.add("raised-in-both:" + pe[0])     # not an idle-timeout matter; the case ends there
    elif not fails and plain["closures"] != tls["closures"]:
        diff = {cid: (plain["closures"][cid], tls["closures"][cid]) for cid in plain["closures"]
                if plain["closures"][cid] != tls["closures"][cid]}
        fails.append(("plain-tls-divergence",
                      "same schedule, different closures {connection: ((round, reason) plain, tls)}: %r" % (diff,)))
    if plain["critical"] or tls["critical"]:
        classes.add("restart-of-idle-period-critical")
    if plain["outlived"] or tls["outlived"]:
        classes.add("persistent-outlives-timeout")
    nontrivial = plain["critical"] or tls["critical"] or plain["outlived"] or tls["outlived"]
    return fails, bool(nontrivial), classes


# ------------------------------------------------------------------------------ generation
DT = st.sampled_from([0, 1, 2, 3, 4, 4, 5, 5, 6, 6, 7, 7, 8, 9, 12])


def conn_spec():
    return st.fixed_dictionaries({
        "ver": st.sampled_from(["1.0", "1.0", "1.1"]),
        "hdr": st.sampled_from(["", "", "close", "close", "keep-alive"]),
        "body": st.sampled_from([0, 0, 5, 40]),
        "cuts": st.lists(st.integers(1, 15), min_size=0, max_size=5),
        "yields": st.lists(st.sampled_from([0, 0, 0, 0, 3, 10]), min_size=0, max_size=16),
        "clen": st.booleans(),
        "sendcap": st.sampled_from([0, 0, 0, 7, 40]),
        "second": st.sampled_from([False, False, True]),
    })


def cases():
    def build(kind, timeout, conns, steps, wlog):
        n = len(conns)
        return {"kind": kind, "timeout": timeout, "conns": conns, "wlog": wlog,
                "steps": [[dt, [[ev, cid % n] for ev, cid in evs]] for dt, evs in steps]}
    # an event on a connection that is not open yet opens it first
    event = st.tuples(st.sampled_from(["data"] * 9 + ["eof"]), st.integers(0, 2))
    step = st.tuples(DT, st.lists(event, min_size=0, max_size=3))
    return st.builds(build, st.sampled_from(["valet", "valet", "porter"]), st.sampled_from(TIMEOUTS),
                     st.lists(conn_spec(), min_size=1, max_size=3), st.lists(step, min_size=4, max_size=30),
                     st.sampled_from([False, False, True]))


def plan(tier):
    env.quiet_ioflo()
    from ioflo.aio.http import serving  # noqa: F401  (imported once, before any fork)
    if tier == "quick":
        return [{"i": i, "n": 100} for i in range(6)]
    return [{"i": i, "n": 1500} for i in range(16)]


def work(shard, seed, tier):
    acc = Acc()

    def execute(case):
        fails, nontrivial, classes = run_case(case)
        sample = dict(case)
        sample["steps"] = case["steps"][:10]
        return Outcome(fails, nontrivial=nontrivial, classes=sorted(classes), key=case, sample=sample)

    campaign(acc, cases(), execute, shard["n"], seed * 1000 + shard["i"],
             budget=Budget(30 if tier == "quick" else 500), shrink_examples=300)
    return acc


def replay(case):
    fails, _, _ = run_case(case)
    return fails
