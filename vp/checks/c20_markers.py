"""C20 'is updated' and 'is changed' conditions report changes since the mark.

Generator: programs with a driver/writer framer and observer framers (declared before or
after the writers, any front/mid/back order) whose frames put / set / inc literal values
(same or different, in any context) and whose transitions / conditional auxes are guarded by
`S is updated|changed [in frame me|F] [by m]` (at most one marker condition per clause, marks
shared through `by`), with entries of the named frames at generated ticks.
Oracle: an event-history model that does not look at ioflo's Mark objects: from the recorded
writes, marker enter actions (entry resets) and transit actions (taken-transition resets) it
computes, per (share, mark), the last write tick, last reset tick, last taken-transition reset
tick, current value and snapshot, and from those the truth of every marker condition
evaluation in the trace. Plus the reference interpreter differential.
"""
from vp.flo.profcheck import ProfileCheck
from vp.flo.engine import all_events

PROPERTY = "C20"
LEVEL = "exploration"
PROFILE = {"inject": True, "driver": True, "data_simple": True, "one_marker_per_act": True, "taskables": (1, 3), "auxes": (0, 1), "slaves": (0, 0),
           "aux_policy": "clean", "frames": (1, 4), "depth": 2, "acts": (1, 5), "ticks": (4, 14),
           "kinds": {"data": 8, "go": 9, "let": 2, "timeout": 1, "repeat": 1, "aux": 1, "auxif": 1, "bid": 0, "done": 0, "fiat": 0},
           "needs": {"cmp": 1, "bool": 0, "elapsed": 0, "recurred": 2, "done": 0, "status": 0, "auxdone": 0, "updated": 7, "changed": 6}}


def _stats(prog, r):
    writes = set()
    resets = set()
    evals = 0
    for t, i, e in all_events(r["real"]):
        if e[0] == "act" and e[5] in ("put", "set", "inc"):
            writes.add(t)
        elif e[0] == "tract" or (e[0] == "act" and e[5] == "mark"):
            resets.add(t)
    return writes, resets


def nontrivial(prog, r):
    writes, resets = _stats(prog, r)
    return bool(writes & resets) and bool(resets)


def classes(prog, r):
    writes, resets = _stats(prog, r)
    out = []
    out.append("write-in-reset-tick" if writes & resets else "no-write-in-reset-tick")
    if any(e[0] == "tract" for t, i, e in all_events(r["real"])):
        out.append("taken-transition-reset")
    if any(e[0] == "act" and e[5] == "mark" for t, i, e in all_events(r["real"])):
        out.append("entry-reset")
    goes = {}
    for t, i, e in all_events(r["real"]):
        if e[0] == "act" and e[5] == "go" and not e[6]:
            goes.setdefault((t, e[4]), []).append(e)
    refused = False
    for t, i, e in all_events(r["real"]):
        if e[0] == "need" and e[5] and (t, e[3]) in goes:
            refused = True
    if refused:
        out.append("go-with-true-need-not-taken")
    if prog.get("inject"):
        out.append("field-added-from-outside")
    return out


def _guard_scenario():
    from vp.flo import gen
    return gen.guard_scenario()


# every fourth shard draws the directed entry-guard scenarios (repeated attempts of transitions into guarded frames,
# guarded by marker conditions): a refused transition must leave its marks alone
CHECK = ProfileCheck(PROFILE, ["c20"], nontrivial, classes, directed=_guard_scenario, directed_share=4)
RULE = ("Hypothesis-generated writer/observer programs with `is updated|changed [in frame ..] [by ..]` conditions; every recorded evaluation of a marker "
        "condition is compared with an event-history model (writes, entry resets, taken-transition resets; tick granularity), a transit reset must belong "
        "to a taken transition (let guards and directed entry-guard scenarios produce refused ones); + reference differential. "
        "non-trivial = a share write happens in the same tick as a mark reset; distinct = distinct program AST")
ASSUMPTIONS = ["when an entry reset and a taken-transition reset of the same mark fall in one tick, an update of that tick does not count (the statement leaves this combination open; adopted from the tree)",
               "writes are literal put/set/inc on the value field, so 'changed' compares the value field with the snapshot"]
META = {"level": LEVEL,
        "text": "Every evaluation of every `is updated` / `is changed` condition in thousands of generated histories is recomputed from the observable history of writes and mark resets.",
        "note": "Tick granularity; the model observes resets through the marker actions ioflo executes.",
        "technique": "Hypothesis history generation + event-history model of marks + reference differential",
        "design_ref": "DESIGN.md section 3, C20"}
plan, work, replay = CHECK.plan, CHECK.work, CHECK.replay
