"""C08 Entry guards are never bypassed and refused transitions have no effect.

Generator: guard-heavy programs: `let` guards at several depths, plain auxiliaries whose first
frames carry guards, the same original auxiliary listed by several frames, conditions flipped
by data acts of other framers. Oracle (history invariants on the real trace): every frame
enter is preceded by a true evaluation of each of its guards made for this entry; a frame is
never entered while one of its original auxiliaries is owned by another entered frame; a
refused transition / start is followed by no exit, re-exit, re-enter, enter or transit
action, leaves the outline unchanged and the clocks undisturbed. Plus reference differential.
"""
from vp.flo.profcheck import ProfileCheck
from vp.flo.engine import all_events

PROPERTY = "C08"
LEVEL = "exploration"
PROFILE = {"driver_cmp": True, "aux_share": True, "aux_completes": True, "driver": True, "aux_policy": "clean", "aux_modes": ["plain", "plain", "cond"], "auxes": (0, 3), "frames": (2, 6), "depth": 3,
           "kinds": {"data": 6, "go": 7, "let": 5, "timeout": 1, "repeat": 1, "aux": 4, "auxif": 1, "bid": 1, "done": 1, "fiat": 2},
           "needs": {"cmp": 8, "bool": 1, "elapsed": 1, "recurred": 2, "done": 1, "status": 0, "auxdone": 1}}


def nontrivial(prog, r):
    refused = {}
    for t, i, e in all_events(r["real"]):
        if e[0] == "act" and e[3] == "benter" and e[5] == "need" and e[6] is False:
            refused.setdefault((e[1], e[2]), True)
        elif e[0] == "f" and e[3] == "enter" and refused.get((e[1], e[2])):
            return True
    return False


def classes(prog, r):
    f = r["feats"]
    out = []
    out.append("guard-false" if f["guard_false"] else "no-guard-false")
    if f["guard_true"]:
        out.append("guard-true")
    if f["go_false"]:
        out.append("refused-or-unmet-transition")
    return out


CHECK = ProfileCheck(PROFILE, ["c08", "c06"], nontrivial, classes, directed=__import__("vp.flo.gen", fromlist=["x"]).guard_family, directed_share=2)
RULE = ("Hypothesis-generated guard-heavy programs (let guards, guarded aux first frames, shared original auxes, conditions flipping); "
        "invariants on the recorded history: guards evaluated true before each entry, aux ownership, refused attempts leave no trace; + "
        "reference differential. non-trivial = some frame's guard is evaluated false and the same frame is entered later; distinct = distinct program AST")
ASSUMPTIONS = ["a guard evaluation counts for an entry if it happened after the frame's previous entry and no later evaluation of the same guard was false",
               "refused-attempt attribution is made for taskable and slave framers (aux framers have no per-run boundary event)"]
META = {"level": LEVEL,
        "text": "Invariants over the full event history of generated programs: no enter without its guards having passed for that entry, no entry of a frame whose original aux is owned elsewhere, and refused starts/transitions produce no enter/exit/transit action and do not disturb outline or clocks.",
        "note": "Guard truth is taken from ioflo's own evaluation events (the values they evaluate are cross-checked by the C07/C21 oracles).",
        "technique": "Hypothesis program generation + history invariants on guard/enter events + reference differential",
        "design_ref": "DESIGN.md section 3, C08"}
plan, work, replay = CHECK.plan, CHECK.work, CHECK.replay
