"""C09 Auxiliary framers live exactly as long as their main frame.

Generator: frames at several levels carrying plain auxiliaries (the same original listed by
several frames of one framer), `done me` / `done <aux>` actions, `if aux X|any|all in frame
me is done` and `if X is done` conditions. Oracle: history invariants (aux enters its first
outline right after each entry of its main frame, recurs right after its main frame's recur
actions, is fully exited with its main frame, is never owned by two frames at once (via C08's
ownership invariant), and every done-condition equals the completion state modelled from the
enterAll / exitAll / done events) plus the reference differential.
"""
from vp.flo.profcheck import ProfileCheck
from vp.flo.engine import all_events

PROPERTY = "C09"
LEVEL = "exploration"
PROFILE = {"aux_share": True, "aux_nest": True, "aux_dual": True, "driver": True, "aux_owner": "taskable", "aux_place": "first", "taskables": (1, 2), "scheds": ["active"],
           "let_in_aux": False, "aux_policy": "clean", "aux_modes": ["plain"], "auxes": (2, 3), "frames": (2, 4), "depth": 3,
           "slaves": (0, 1),
           "kinds": {"data": 3, "go": 9, "let": 1, "timeout": 2, "repeat": 2, "aux": 3, "auxif": 0, "bid": 0, "done": 4, "fiat": 1},
           "needs": {"cmp": 3, "bool": 0, "elapsed": 3, "recurred": 7, "done": 4, "status": 0, "auxdone": 5}}


def _stats(r):
    enters = {}
    res = {}
    for t, i, e in all_events(r["real"]):
        if e[0] == "enterall":
            enters[e[1]] = enters.get(e[1], 0) + 1
    return enters


def nontrivial(prog, r):
    enters = _stats(r)
    auxes = [fr["name"] for fr in prog["framers"] if fr["sched"] == "aux"]
    twice = any(enters.get(a, 0) >= 2 for a in auxes)
    # a done-condition that flips: both outcomes observed for done/auxdone needs
    seen = set()
    lines = {}
    for fr in prog["framers"]:
        for f in fr["frames"]:
            for a in f["acts"]:
                for j, n in enumerate(a.get("needs") or []):
                    if n["kind"] in ("done", "auxdone"):
                        lines[(a["line"], j)] = True
    out = {}
    for t, i, e in all_events(r["real"]):
        if e[0] == "need" and (e[3], e[4]) in lines:
            out.setdefault((e[3], e[4]), set()).add(bool(e[5]))
    flips = any(len(v) == 2 for v in out.values())
    return twice or flips


def classes(prog, r):
    enters = _stats(r)
    auxes = [fr["name"] for fr in prog["framers"] if fr["sched"] == "aux"]
    out = []
    m = max([enters.get(a, 0) for a in auxes] or [0])
    out.append("aux-entered>=2" if m >= 2 else ("aux-entered=1" if m == 1 else "aux-never-entered"))
    if r["feats"]["done"]:
        out.append("done-act-ran")
    return out


CHECK = ProfileCheck(PROFILE, ["c09", "c08", "c06"], nontrivial, classes,
                     directed=__import__("vp.flo.gen", fromlist=["x"]).aux_with_cond_scenario, directed_share=8)
RULE = ("Hypothesis-generated programs with plain auxiliaries at several levels (shared originals), done verbs and done-conditions; history "
        "invariants on aux lifetime/order/ownership and a completion-state model for done-conditions; + reference differential. "
        "non-trivial = an aux is entered at least twice or a done-condition is observed both true and false in the run; distinct = distinct program AST")
ASSUMPTIONS = ["completion state model: false from Framer.enterAll, true from a done action naming the framer or from exitAll (not from a stop)"]
META = {"level": LEVEL,
        "text": "Lifetime, ordering and ownership of plain auxiliaries and the truth of every done-condition are checked on every tick of generated programs against a small event-history model, independently of the interpreter differential that runs on the same programs.",
        "note": "Clones of moot framers are covered by C12, not here.",
        "technique": "Hypothesis program generation + history invariants + completion-state model + reference differential",
        "design_ref": "DESIGN.md section 3, C09"}
plan, work, replay = CHECK.plan, CHECK.work, CHECK.replay
