"""C36 Stream stacks deliver every queued packet to the peer intact.

Generator: Hypothesis: one TcpServerStack and 1-2 TcpClientStacks on 127.0.0.1 (ephemeral port),
then an arbitrary interleaving of (a) queueing packets (transmit) / messages (message) in either
direction, sizes from a few bytes to several hundred KiB so that non-blocking sends are partial,
and (b) single calls of the fine-grained service methods of either stack (everything serviceAll is
made of, the ...Once variants, and the handler-level receive/transmit steps serviceAll uses).
Afterwards the harness services both sides until all user-space transmit queues are empty, half
closes every connection and reads to end-of-stream, which makes 'lost' decidable without timing.
Oracle: the packets appended to a stack's .rxPkts for a connection, concatenated, are a prefix of
(finally: equal to) the concatenation of the packets that entered the peer's .txPkts for that
connection, in order; every transmit()/message() enters .txPkts exactly once, in order.
"""
import select
import time
from collections import deque

from hypothesis import strategies as st

from vp.core.acc import Acc
from vp.core.env import cpu_watchdog, Hang
from vp.core.hyp import campaign, Outcome, Budget

PROPERTY = "C36"
LEVEL = "exploration"
RULE = ("Hypothesis cases: n clients in {1,2}, ascii or binary payloads, client/server socket buffer sizes from a "
        "small set, 1..60 steps, each step either 'queue 1-3 packets (transmit) / messages on stack X for peer Y' "
        "(size classes 1 B .. 300 KiB, unique ascii tag + patterned body) or 'call service method M of stack X once' "
        "(20 server / 18 client methods), in a third of the cases also 'queue a packet on the server stack for an address that is not "
        "connected' (refused with one ValueError, must not hold up the packets behind it); then a deterministic drain (serviceAll rounds, in a third of the cases the clients' "
        "transmit side is driven by serviceAllTxOnce only; half-close, read to EOF). Checked after every step and at the end: per connection and direction, concatenation of the "
        "packets appended to .rxPkts == (prefix of) concatenation of the packets appended to the peer's .txPkts. "
        "non-trivial = some service call found >= 2 packets queued on its stack and both directions carried "
        "data; distinct = the generated case")
ASSUMPTIONS = [
    "loopback TCP is reliable and ordered; after a half-close the peer reads every byte sent before it and then end-of-stream",
    "the connection is established (client connected, server accepted it, serviceConnects done) before the first packet is queued: the property speaks of connected peers",
    "received packets are observed as appends to the deque passed as rxPkts= (constructor parameter), queued packets as appends to the deque passed as txPkts=",
    "only methods that TcpServerStack.serviceAll / TcpClientStack.serviceAll are composed of (and their ...Once variants and serviceServer) are called; in binary cases the server's rxPkts->message conversion (ascii decode) is not called",
    "stall verdict: a stack holds unsent user-space data, select() reports its socket writable immediately before each of three consecutive complete serviceAll rounds and none of them moves any of that data - no clock involved (a writable TCP socket accepts at least one byte)",
    "the base Packet class has no framing: one received packet may carry the bytes of several queued packets, so only the concatenation is compared",
    "a round bound reached while bytes are still moving, or EOF not seen within the bound, is recorded as inconclusive, never as a violation",
]
META = {
    "level": LEVEL,
    "text": "Real loopback sockets, generated traffic in both directions with packets large enough to force partial "
            "non-blocking sends, and arbitrary interleavings of every fine-grained service entry point; byte-exact "
            "stream comparison after every step, loss made decidable by reading to end-of-stream.",
    "note": "Trusts the kernel's loopback TCP and the harness recorder deques. Explored interleavings only; TLS and "
            "connection loss/reconnect are outside this property.",
    "technique": "Hypothesis schedules over real loopback sockets with a byte-stream reference (recorded queue appends)",
    "design_ref": "DESIGN.md section 3, C36",
}

SERVER_OPS = ["serviceConnects", "handler.serviceReceivesAllIx", "serviceReceives", "serviceReceivesOnce",
              "serviceRxPkts", "serviceRxPktsOnce", "serviceRxMsgs", "serviceRxMsgsOnce", "serviceTimers",
              "serviceAllRx", "serviceAllRxOnce", "serviceTxMsgs", "serviceTxMsgOnce", "serviceTxPkts",
              "serviceTxPktsOnce", "serviceAllTx", "serviceAllTxOnce", "handler.serviceTxesAllIx",
              "serviceServer", "serviceAll"]
SERVER_ASCII_ONLY = {"serviceRxPkts", "serviceRxPktsOnce", "serviceAllRx", "serviceAllRxOnce", "serviceAll"}
CLIENT_OPS = ["serviceConnect", "serviceReceives", "serviceReceivesOnce", "serviceRxPkts", "serviceRxPktsOnce",
              "serviceRxMsgs", "serviceRxMsgsOnce", "serviceTimers", "serviceAllRx", "serviceAllRxOnce",
              "serviceTxMsgs", "serviceTxMsgOnce", "serviceTxPkts", "serviceTxPktsOnce", "serviceAllTx",
              "serviceAllTxOnce", "serviceServer", "serviceAll"]
# (client bufsize, server bufsize)
BUFS = [(16192, 1048576), (16192, 8096), (2048, 4096), (2048, 1048576)]
SIZES = [1, 7, 60, 900, 5000, 20000, 60000, 150000, 300000]
MAX_TOTAL = 1536 * 1024
STRAY = ("127.0.0.1", 9)     # an address that is never a connection of the server stack
SETUP_ROUNDS = 400
FLUSH_ROUNDS = 4000
EOF_ROUNDS = 400


class Flood(Exception):
    """more queue appends than any generated case can legitimately cause (runaway loop in the stack)"""


class RecDeque(deque):
    """deque that remembers everything ever appended (observation point)."""
    LIMIT = 20000

    def __init__(self):
        deque.__init__(self)
        self.rec = []

    def append(self, item):
        if len(self.rec) >= self.LIMIT:
            raise Flood("more than %d packets appended to one queue" % self.LIMIT)
        self.rec.append(item)
        deque.append(self, item)


def _where(ex):
    tb = ex.__traceback__
    name = "harness"
    while tb is not None:
        fn = tb.tb_frame.f_code.co_filename
        if "/ioflo/" in fn:
            name = "%s:%s" % (fn.rsplit("/", 1)[-1], tb.tb_frame.f_code.co_name)
        tb = tb.tb_next
    return name


ALNUM = b"ABCDEFGHIJKLMNOPQRSTUVWXYZabcdefghijklmnopqrstuvwxyz0123456789+/"


_BASES = {}


def body(n, seed, binary):
    """patterned body of n bytes (period 251); ascii bodies never contain '<' (the tag opener)"""
    base = _BASES.get((seed, binary))
    if base is None:
        if binary:
            base = bytes((seed * 7 + j * 13 + (j >> 3)) % 256 for j in range(251))
        else:
            base = bytes(ALNUM[(seed * 7 + j * 13 + (j >> 3)) % 64] for j in range(251))
        _BASES[(seed, binary)] = base
    return (base * (n // 251 + 1))[:n]


class Inconclusive(Exception):
    pass


class Session(object):
    def __init__(self, cfg):
        from ioflo.aio.proto import stacking
        self.cfg = cfg
        self.binary = bool(cfg["binary"])
        cb, sb = BUFS[cfg["bufs"] % len(BUFS)]
        self.fails = []
        self.info = {"partial": False, "spartial": False, "burst": False, "dirs": set(), "rxmulti": False, "bytes": 0, "msgpath": False}
        self.clients = []
        self.server = None
        srvcls = stacking.TcpServerStack
        if cfg.get("framed") and not self.binary:
            # the documented extension point: a server stack whose parserize() frames the stream itself (one packet per
            # `<...>` message, None while a message is incomplete) instead of taking everything that is buffered
            from ioflo.aio.proto import packeting as _pk

            class FramedServerStack(stacking.TcpServerStack):
                def parserize(self, raw):
                    end = bytes(raw).find(b">")
                    if end < 0:
                        return None
                    return _pk.Packet(stack=self, packed=bytearray(raw[:end + 1]))
            srvcls = FramedServerStack
            self.info["framed"] = True
        self.server = srvcls(name="server", ha=("127.0.0.1", 0), bufsize=sb,
                             rxPkts=RecDeque(), txPkts=RecDeque())
        port = self.server.handler.ha[1]
        # small kernel buffers (inherited by accepted sockets) in most cases, so that non-blocking sends of
        # queued packets are really partial / would-block on loopback instead of being swallowed whole
        import socket as _socket
        small = (cfg["bufs"] % 3) != 0
        if small:
            try:
                self.server.handler.ss.setsockopt(_socket.SOL_SOCKET, _socket.SO_SNDBUF, 2048)
                self.server.handler.ss.setsockopt(_socket.SOL_SOCKET, _socket.SO_RCVBUF, 2048)
            except (OSError, AttributeError):
                pass
        for i in range(cfg["nclients"]):
            self.clients.append(stacking.TcpClientStack(name="client%d" % i, ha=("127.0.0.1", port), bufsize=cb,
                                                        rxPkts=RecDeque(), txPkts=RecDeque()))
            if small:
                try:
                    cs = self.clients[-1].handler.cs
                    cs.setsockopt(_socket.SOL_SOCKET, _socket.SO_SNDBUF, 2048)
                    cs.setsockopt(_socket.SOL_SOCKET, _socket.SO_RCVBUF, 2048)
                except (OSError, AttributeError):
                    pass
        self.cas = []
        # per direction key ("s", i) = server -> client i ; ("c", i) = client i -> server
        self.queued = {}     # key -> list of payloads handed to transmit()/message(), with path
        self.exp = {}        # key -> bytearray of everything that entered the sender's txPkts
        self.exp_n = {}      # key -> number of txPkts.rec entries consumed
        self.got_len = {}    # key -> bytes verified so far on the receiver
        self.got_n = {}      # key -> number of rxPkts.rec entries consumed
        self.seq = 0
        self.stray_budget = 0   # stray packets queued and not yet refused (each may cost one ValueError)
        self.stray_seen = 0

    # ------------------------------------------------------------------ life cycle
    def fail(self, sig, what):
        self.fails.append((sig, what))

    def close(self):
        for c in self.clients:
            try:
                c.close()
            except Exception:
                pass
        if self.server is not None:
            try:
                self.server.handler.closeAll()
            except Exception:
                pass

    def connect(self):
        """Establish all connections; returns False when the case cannot go on."""
        srv = self.server
        for _ in range(SETUP_ROUNDS):
            for c in self.clients:
                c.serviceConnect()
            try:
                srv.serviceConnects()
            except Exception as ex:
                sig = "%s@%s" % (type(ex).__name__, _where(ex))
                if not any(s == sig for s, _ in self.fails):
                    self.fail(sig, "TcpServerStack.serviceConnects() raised %r while accepting a client" % (ex,))
            if all(c.handler.connected and c.handler.ca in srv.handler.ixes for c in self.clients):
                break
            time.sleep(0.0005)
        else:
            raise Inconclusive("connections not established within %d rounds" % SETUP_ROUNDS)
        self.cas = [c.handler.ca for c in self.clients]
        if len(set(self.cas)) != len(self.cas):
            raise Inconclusive("duplicate connection addresses")
        for i in range(len(self.clients)):
            for k in (("s", i), ("c", i)):
                self.queued[k] = []
                self.exp[k] = bytearray()
                self.exp_n[k] = 0
                self.got_len[k] = 0
                self.got_n[k] = 0
        return True

    # ------------------------------------------------------------------ steps
    def queue(self, side, i, path, sizeidx, seed):
        """side 's': server -> client i; 'c': client i -> server."""
        from ioflo.aio.proto import packeting
        key = (side, i)
        size = SIZES[sizeidx % len(SIZES)]
        if self.info["bytes"] + size > MAX_TOTAL:
            size = 7
        self.seq += 1
        usemsg = path == 1 and not self.binary
        stack = self.server if side == "s" else self.clients[i]
        remote = None
        if usemsg and side == "s":
            remote = stack.haRemotes.get(self.cas[i])
            if remote is None:
                usemsg = False
        tag = ("<%s%d%s%04d|" % (side, i, "M" if usemsg else "P", self.seq)).encode("ascii")
        data = tag + body(size, seed, self.binary) + b">"
        self.info["bytes"] += len(data)
        self.info["dirs"].add(side)
        self.queued[key].append((usemsg, data))
        before = len(stack.txPkts.rec)
        if usemsg:
            self.info["msgpath"] = True
            if side == "s":
                stack.message(data.decode("ascii"), remote)
            else:
                stack.message(data.decode("ascii"))
        else:
            pkt = packeting.Packet(stack=stack, packed=data)
            if side == "s":
                stack.transmit(pkt, self.cas[i])
            else:
                stack.transmit(pkt)
            rec = stack.txPkts.rec
            ok = len(rec) == before + 1
            if ok:
                ent = rec[-1]
                p = ent[0] if side == "s" else ent
                ok = bytes(p.packed) == data and (side == "c" or ent[1] == self.cas[i])
            if not ok:
                self.fail("transmit-not-queued", "transmit() of %r... did not append exactly that packet to .txPkts" % (data[:24],))

    def queue_stray(self, seed):
        """A packet for an address that is no connection of the server stack: it cannot be delivered (the stack refuses
        it with one ValueError when its turn comes) and must not hold up the packets queued behind it for connected
        peers."""
        from ioflo.aio.proto import packeting
        self.seq += 1
        data = ("<x9P%04d|" % self.seq).encode("ascii") + body(7, seed, self.binary) + b">"
        self.server.transmit(packeting.Packet(stack=self.server, packed=data), STRAY)
        self.stray_budget += 1
        self.stray_seen += 1
        self.info["stray"] = True

    def service(self, who, opidx):
        """who 0 = server, k>0 = client k-1."""
        if who == 0:
            stack = self.server
            ops = [o for o in SERVER_OPS if not (self.binary and o in SERVER_ASCII_ONLY)]
        else:
            stack = self.clients[(who - 1) % len(self.clients)]
            ops = CLIENT_OPS
        name = ops[opidx % len(ops)]
        self.call(stack, name)
        return name

    def call(self, stack, name):
        if len(stack.txPkts) + len(stack.txMsgs) >= 2:
            self.info["burst"] = True
        target = stack
        for part in name.split("."):
            target = getattr(target, part)
        try:
            target()
        except ValueError as ex:
            # refusal of a stray packet (unknown connection address): once per stray packet
            if stack is self.server and self.stray_budget > 0 and repr(STRAY) in str(ex):
                self.stray_budget -= 1
            else:
                raise
        if stack is self.server:
            if any(ix.txes for ix in stack.handler.ixes.values()):   # Incomer kept an unsent remainder
                self.info["spartial"] = True
        elif stack.txbs:                                             # client kept an unsent remainder
            self.info["partial"] = True

    # ------------------------------------------------------------------ oracle
    def absorb(self):
        """Consume new recorder entries; verify received bytes against the expected streams."""
        srv = self.server
        # expected streams: what entered the senders' txPkts
        rec = srv.txPkts.rec
        n0 = self.exp_n.get("srv", 0)
        for ent in rec[n0:]:
            pkt, ca = ent
            if ca in self.cas:
                self.exp[("s", self.cas.index(ca))].extend(pkt.packed)
            elif ca == STRAY:
                pass
            else:
                self.fail("tx-unknown-destination", "server .txPkts got a packet for %r which is no connection" % (ca,))
        self.exp_n["srv"] = len(rec)
        for i, c in enumerate(self.clients):
            rec = c.txPkts.rec
            for pkt in rec[self.exp_n[("c", i)]:]:
                self.exp[("c", i)].extend(pkt.packed)
            self.exp_n[("c", i)] = len(rec)
        # received
        rec = srv.rxPkts.rec
        n0 = self.got_n.get("srv", 0)
        for ent in rec[n0:]:
            pkt, ca = ent
            if ca not in self.cas:
                self.fail("rx-unknown-source", "server .rxPkts got a packet from %r which is no connection" % (ca,))
                continue
            self.verify(("c", self.cas.index(ca)), bytes(pkt.packed))
        self.got_n["srv"] = len(rec)
        for i, c in enumerate(self.clients):
            rec = c.rxPkts.rec
            for pkt in rec[self.got_n[("s", i)]:]:
                self.verify(("s", i), bytes(pkt.packed))
            self.got_n[("s", i)] = len(rec)

    def verify(self, key, data):
        exp = self.exp[key]
        at = self.got_len[key]
        if not self.binary and data.count(b"<") > 1:
            self.info["rxmulti"] = True
        if bytes(exp[at:at + len(data)]) != data:
            common = 0
            seg = bytes(exp[at:at + len(data)])
            while common < min(len(seg), len(data)) and seg[common] == data[common]:
                common += 1
            who = "client %d" % key[1] if key[0] == "s" else "server (from client %d)" % key[1]
            if len(seg) < len(data) and data[:len(seg)] == seg:
                sig = "received-more-than-queued"
            else:
                sig = "stream-mismatch@" + ("client-rx" if key[0] == "s" else "server-rx")
            self.fail(sig, "%s received a packet of %d bytes at stream offset %d that differs from the bytes queued for it at "
                      "relative offset %d: got %r..., queued %r... (queued stream length %d)"
                      % (who, len(data), at, common, data[common:common + 24], seg[common:common + 24], len(exp)))
        self.got_len[key] = at + len(data)

    # ------------------------------------------------------------------ drain
    def round(self):
        srv = self.server
        if self.binary:
            for name in ("serviceConnects", "handler.serviceReceivesAllIx", "serviceReceives", "serviceTxMsgs",
                         "serviceTxPkts", "handler.serviceTxesAllIx"):
                self.call(srv, name)
        else:
            self.call(srv, "serviceAll")
        for c in self.clients:
            if self.cfg.get("once"):
                # an application that drives the transmit side one transmission at a time (the ...Once variants only)
                for name in ("serviceConnect", "serviceAllRx", "serviceAllTxOnce"):
                    self.call(c, name)
            else:
                self.call(c, "serviceAll")

    def pending(self):
        """user-space data not yet handed to the kernel: {label: (amount, socket or None)}"""
        out = {}
        srv = self.server
        if srv.txMsgs or srv.txPkts:
            out["server-queues"] = ((len(srv.txMsgs), len(srv.txPkts)), None)
        for ca, ix in srv.handler.ixes.items():
            if ix.txes:
                out["server-ix-%s-%s" % ca] = ((len(ix.txes), sum(len(d) for d in ix.txes)), ix.cs)
        for i, c in enumerate(self.clients):
            if c.txMsgs or c.txPkts or c.txbs:
                out["client%d" % i] = ((len(c.txMsgs), len(c.txPkts), len(c.txbs)), c.handler.cs)
        return out

    @staticmethod
    def writable(sock):
        if sock is None:
            return True      # no socket involved (stack queue -> connection queue never blocks)
        try:
            return bool(select.select([], [sock], [], 0)[1])
        except (OSError, ValueError):
            return False

    def state(self):
        pend = self.pending()
        return (tuple(sorted((k, v[0]) for k, v in pend.items())), tuple(sorted(self.got_len.items())),
                len(self.server.rxPkts.rec), tuple(len(c.rxPkts.rec) for c in self.clients),
                tuple(len(ix.rxbs) for ix in self.server.handler.ixes.values()), tuple(len(c.rxbs) for c in self.clients))

    def drain(self):
        """Flush, half-close, read to EOF, final comparison."""
        streak = {}    # label -> consecutive rounds that started with a writable socket and moved nothing of it
        idle = 0
        last = None
        for rnd in range(FLUSH_ROUNDS):
            before = self.pending()
            ready = dict((label, self.writable(v[1])) for label, v in before.items())
            budget0 = self.stray_budget
            self.round()
            self.absorb()
            if self.fails:
                return
            if self.stray_budget != budget0:
                # this round was cut short by the (expected, once per packet) refusal of a stray packet: it says
                # nothing about a stall
                streak.clear()
                last = None
                continue
            pend = self.pending()
            if not pend:
                break
            for label in list(streak):
                if label not in pend:
                    del streak[label]
            for label, (amount, sock) in pend.items():
                if label in before and before[label][0] == amount and ready[label]:
                    streak[label] = streak.get(label, 0) + 1
                else:
                    streak.pop(label, None)
            stuck = sorted(label for label, k in streak.items() if k >= 3)
            if stuck:
                label = stuck[0]
                flags = ["client%d connected=%r cutoff=%r" % (i, c.handler.connected, c.handler.cutoff)
                         for i, c in enumerate(self.clients)]
                flags += ["ix %r cutoff=%r" % (ca, ix.cutoff) for ca, ix in self.server.handler.ixes.items()]
                side = "client" if label.startswith("client") else "server"
                self.fail("tx-stalled@" + side,
                          "%s holds unsent data %r (messages, packets, bytes) and its socket was writable at the start of "
                          "each of three consecutive complete serviceAll rounds, none of which moved any of it "
                          "(all pending: %r; %s)" % (label, pend[label][0], sorted((k, v[0]) for k, v in pend.items()),
                                                     "; ".join(flags)))
                return
            cur = self.state()
            if cur == last:
                idle += 1
                if idle >= 400:
                    raise Inconclusive("nothing moved for 400 rounds and no stack was stuck with a writable socket")
                time.sleep(0.0005)
            else:
                idle = 0
            last = cur
        else:
            raise Inconclusive("transmit queues not empty after %d rounds" % FLUSH_ROUNDS)
        # half close: everything sent so far will be followed by end-of-stream at the peer
        srv = self.server
        if self.cfg.get("parting") and not self.binary:
            # parting shot: each client queues one more packet, hands it to the kernel and half-closes at once; the
            # server stack then reads that data and the end-of-stream in ONE serviceAll pass - the bytes must still be
            # delivered as a received packet (a connection that is reaped must not take its unparsed bytes along)
            # first let the server read everything sent so far, so that the small parting packets fit the kernel buffers
            for _ in range(FLUSH_ROUNDS):
                if all(self.got_len[("c", i)] == len(self.exp[("c", i)]) for i in range(len(self.clients))):
                    break
                self.round()
                self.absorb()
                if self.fails:
                    return
            for i, c in enumerate(self.clients):
                self.queue("c", i, 0, 2, 200 + i)
            for _ in range(200):
                for c in self.clients:
                    self.call(c, "serviceAllTx")
                if not any(c.txPkts or c.txMsgs or c.txbs for c in self.clients):
                    break
            self.absorb()
            if any(c.txPkts or c.txMsgs or c.txbs for c in self.clients):
                # could not hand the parting packets to the kernel without the server reading: no parting shot here,
                # an ordinary flush follows
                for _ in range(FLUSH_ROUNDS):
                    if not self.pending():
                        break
                    self.round()
                    self.absorb()
                    if self.fails:
                        return
            else:
                for c in self.clients:
                    c.handler.shutdownSend()
                for ca in self.cas:
                    ix = srv.handler.ixes.get(ca)
                    if ix is not None and ix.cs is not None:
                        select.select([ix.cs], [], [], 1.0)      # let the data and the FIN arrive (never a verdict)
                time.sleep(0.002)
                self.call(srv, "serviceAll")
                self.absorb()
                self.info["parting"] = True
                if self.fails:
                    return
        for c in self.clients:
            c.handler.shutdownSend()
        for ca in self.cas:
            if ca in srv.handler.ixes:      # a connection already reaped by the server stack is gone
                srv.handler.shutdownSendIx(ca)
        for rnd in range(EOF_ROUNDS):
            self.call(srv, "handler.serviceReceivesAllIx")
            self.call(srv, "serviceReceives")
            for c in self.clients:
                self.call(c, "serviceReceives")
            self.absorb()
            if self.fails:
                return
            if all(ca not in srv.handler.ixes or srv.handler.ixes[ca].cutoff for ca in self.cas) and \
                    all(c.handler.cutoff for c in self.clients):
                break
            time.sleep(0.0005)
        else:
            raise Inconclusive("end-of-stream not seen within %d rounds" % EOF_ROUNDS)
        self.call(srv, "serviceReceives")
        self.absorb()
        if self.fails:
            return
        for key in sorted(self.exp):
            if not isinstance(key, tuple):
                continue
            who = "client %d" % key[1] if key[0] == "s" else "server (from client %d)" % key[1]
            if self.got_len[key] != len(self.exp[key]):
                left = 0
                if key[0] == "c":
                    ixl = srv.handler.ixes.get(self.cas[key[1]])
                    left = len(ixl.rxbs) if ixl is not None else 0
                else:
                    left = len(self.clients[key[1]].rxbs)
                self.fail("lost-bytes@" + ("client-rx" if key[0] == "s" else "server-rx"),
                          "%s: %d bytes entered the peer's .txPkts, only %d were delivered in received packets before "
                          "end-of-stream (%d bytes sit unparsed in the receive buffer)"
                          % (who, len(self.exp[key]), self.got_len[key], left))
            # every transmit()/message() entered txPkts once, in order per path
            stream = bytes(self.exp[key])
            want = b"".join(d for _, d in self.queued[key])
            if stream != want:
                ok = False
                if any(m for m, _ in self.queued[key]):
                    # messages enter .txPkts when serviceTxMsgs runs: compare each path's own order
                    # (ascii bodies contain no '<', so the stream splits at the tags)
                    parts = [b"<" + t for t in stream.split(b"<")[1:]]
                    ok = (b"".join(t for t in parts if t[3:4] == b"P") == b"".join(d for m, d in self.queued[key] if not m) and
                          b"".join(t for t in parts if t[3:4] == b"M") == b"".join(d for m, d in self.queued[key] if m))
                if not ok:
                    self.fail("queued-not-in-txPkts@" + ("server" if key[0] == "s" else "client"),
                              "packets/messages queued for %s do not match what entered .txPkts (queued %d bytes, entered %d)"
                              % (who, len(want), len(stream)))


def run_case(case):
    """Returns (fails, info, inconclusive_reason)."""
    sess = None
    info = {"partial": False, "spartial": False, "burst": False, "dirs": set(), "rxmulti": False, "bytes": 0, "msgpath": False, "ops": []}
    try:
        with cpu_watchdog(30):
            try:
                sess = Session(case)
            except Exception as ex:
                return [("setup-%s@%s" % (type(ex).__name__, _where(ex)), "creating the stacks raised %r" % (ex,))], info, None
            try:
                sess.connect()
                pre = list(sess.fails)     # exceptions of serviceConnects during set-up (case goes on at handler level)
                sess.fails = []
                for stepno, step in enumerate(case["steps"], 1):
                    try:
                        if step[0] == "tx":
                            _, d, path, sizeidx, seed, count = step
                            i = (d // 2) % len(sess.clients)
                            for k in range(count):   # count packets back to back; later ones smaller
                                sess.queue("s" if d % 2 == 0 else "c", i, (path + k) % 2, max(0, sizeidx - 2 * k), seed + k)
                        elif step[0] == "stray":
                            sess.queue_stray(step[1])
                        else:
                            _, who, opidx = step
                            name = sess.service(who % (len(sess.clients) + 1), opidx)
                            sess.info.setdefault("opnames", set()).add(name)
                        sess.absorb()
                    except Inconclusive:
                        raise
                    except Exception as ex:
                        sess.fail("%s@%s" % (type(ex).__name__, _where(ex)),
                                  "step %d %r raised %r" % (stepno, step, ex))
                    if sess.fails:
                        break
                if not sess.fails:
                    try:
                        sess.drain()
                    except Inconclusive:
                        raise
                    except Exception as ex:
                        sess.fail("%s@%s" % (type(ex).__name__, _where(ex)), "final drain raised %r" % (ex,))
                info = sess.info
                allf = []
                for f in pre + sess.fails:
                    if f not in allf:
                        allf.append(f)
                return allf, info, None
            except Inconclusive as ex:
                return list(sess.fails), sess.info, str(ex)
    except Hang:
        return [("hang", "case used more than 30 s of CPU")], info, None
    finally:
        if sess is not None:
            sess.close()


# ------------------------------------------------------------------------------------------
def case_strategy():
    tx = st.tuples(st.just("tx"), st.integers(0, 3), st.integers(0, 1),
                   st.sampled_from([0, 1, 1, 2, 2, 3, 3, 4, 4, 5, 5, 6, 6, 7, 8]), st.integers(0, 250),
                   st.sampled_from([1, 1, 2, 3]))
    svc = st.tuples(st.just("svc"), st.integers(0, 2), st.integers(0, 19))
    stray = st.tuples(st.just("stray"), st.integers(0, 250))
    step_plain = st.one_of(tx, tx, svc, svc, svc)
    step_stray = st.one_of(tx, tx, svc, svc, svc, stray)
    # a third of the cases may also queue packets for an address that is not connected
    step = step_plain
    return st.one_of(_cases(step_plain), _cases(step_plain), _cases(step_stray))


def _cases(step):
    return st.fixed_dictionaries({
        "nclients": st.sampled_from([1, 1, 2]),
        "binary": st.sampled_from([False, False, False, True]),
        "bufs": st.integers(0, len(BUFS) - 1),
        "parting": st.sampled_from([False, True]),
        "framed": st.sampled_from([False, False, True]),
        "once": st.sampled_from([False, False, True]),
        "steps": st.one_of(st.lists(step, min_size=1, max_size=60), st.lists(step, min_size=12, max_size=60),
                           st.lists(step, min_size=12, max_size=60)),
    })


def to_case(v):
    return {"nclients": v["nclients"], "binary": v["binary"], "bufs": v["bufs"], "parting": bool(v.get("parting")),
            "framed": bool(v.get("framed")), "once": bool(v.get("once")), "steps": [list(s) for s in v["steps"]]}


def plan(tier):
    n = 8 if tier == "quick" else 16
    return [{"i": i, "n": n} for i in range(n)]


def work(shard, seed, tier):
    from vp.core.env import quiet_ioflo
    quiet_ioflo()
    acc = Acc()
    n = 45 if tier == "quick" else 150

    def execute(v):
        case = to_case(v)
        fails, info, inconclusive = run_case(case)
        classes = ["clients=%d" % case["nclients"], "binary" if case["binary"] else "ascii",
                   "bufs=%d" % (case["bufs"] % len(BUFS))]
        if inconclusive:
            classes.append("inconclusive")
            acc.budget_hit = True
            acc.note("inconclusive case: " + inconclusive)
        both = len(info["dirs"]) == 2
        if info["partial"]:
            classes.append("partial-client-send-seen")
        if info["spartial"]:
            classes.append("partial-server-send-seen")
        if info["rxmulti"]:
            classes.append("rx-packet-spanning-several-queued")
        if info["msgpath"]:
            classes.append("message-path-used")
        if info.get("framed"):
            classes.append("server-frames-the-stream-itself")
        if info.get("stray"):
            classes.append("stray-destination-queued")
        if info.get("parting"):
            classes.append("parting-shot-data-and-eof-in-one-pass")
        if case.get("once"):
            classes.append("client-tx-driven-by-once-calls")
        if both:
            classes.append("both-directions")
        if info["burst"]:
            classes.append("burst>=2")
        classes.append("bytes<1k" if info["bytes"] < 1000 else ("bytes<100k" if info["bytes"] < 100000 else "bytes>=100k"))
        for name in sorted(info.get("opnames", ())):
            acc.label("op:" + name)
        nt = both and info["burst"] and not inconclusive
        sample = dict(case)
        sample["steps"] = case["steps"][:12]
        return Outcome(fails, nontrivial=nt, classes=classes, key=case, sample=sample)

    campaign(acc, case_strategy(), execute, n, seed * 1000 + shard["i"], to_case=to_case,
             budget=Budget(300 if tier == "quick" else 1500), shrink_examples=120)
    return acc


def replay(case):
    from vp.core.env import quiet_ioflo
    quiet_ioflo()
    case = dict(case)
    case["steps"] = [list(s) for s in case["steps"]]
    fails, _, _ = run_case(case)
    return fails
