"""C11 Framer elapsed/recurred clocks drive timeout and repeat exactly.

Families.
(1) Exhaustive grid of single-frame programs `frame a / timeout T` and `frame a / repeat N`
over every tick period of the set (binary-exact and decimal), T on a grid of zero, multiples
and non-multiples of the tick and decimal values, N in 0..6. Oracle: exact arithmetic --
the frame is left at the first evaluation n >= 1 (n ticks after entry) with n*P >= T
(resp. n >= N); observed as the tick index at which frame b is entered.
(2) Exhaustive grid of two-framer programs sampling the clocks: `go b if elapsed >= T`
together with a precur recorder copy of the framer's elapsed / recurred shares; the sampled
values must equal n*P (within 1e-9) and n at every evaluation.
(3) Hypothesis sequences: nested frames, `go me` forced re-entry, timeouts / repeats /
elapsed / recurred needs with decimal values, compared with the reference interpreter that
keeps time in exact fractions (per-tick elapsed/recurred of every framer, transition ticks).
"""
import itertools
from fractions import Fraction

from vp.core.acc import Acc
from vp.flo.engine import run_case, all_events, prog_key
from vp.flo.profcheck import ProfileCheck, evaluate
from vp.flo import clonegrid as CG

PROPERTY = "C11"
LEVEL = "exploration"

TICKS = ["0.0625", "0.125", "0.05", "0.1", "0.2", "0.25", "0.3"]
TOUTS = ["0", "0.05", "0.1", "0.125", "0.15", "0.2", "0.25", "0.3", "0.35", "0.4", "0.5", "0.6", "0.7", "0.8", "0.9", "1.0", "1.2"]
REPS = [0, 1, 2, 3, 4, 5, 6]


def single(P, kind, val):
    acts = [{"kind": "timeout", "t": val}] if kind == "timeout" else [{"kind": "repeat", "n": val}]
    need_ticks = 4
    if kind == "timeout":
        need_ticks = int(Fraction(val) / Fraction(P)) + 4
    else:
        need_ticks = val + 4
    return {"period": P, "ticks": need_ticks, "inits": [],
            "framers": [{"name": "m", "sched": "active", "order": None, "period": None, "first": None,
                         "frames": [{"name": "a", "over": None, "acts": acts},
                                    {"name": "b", "over": None, "acts": [{"kind": "bid", "verb": "stop", "targets": ["me"], "ctx": "recur"}]}]}]}


def expected_leave_tick(P, kind, val):
    P = Fraction(P)
    n = 1
    while True:
        if kind == "timeout":
            if n * P >= Fraction(val):
                return n
        else:
            if n >= val:
                return n
        n += 1


def check_single(case):
    P, kind, val = case["P"], case["kind"], case["val"]
    prog = single(P, kind, val)
    fails, r = evaluate({"prog": prog}, [], use_ref=True)
    fails = [(s, w) for s, w in fails]
    # direct oracle: tick at which frame b is entered
    got = None
    for t, i, e in all_events(r["real"]):
        if e[0] == "f" and e[2] == "b" and e[3] == "enter":
            got = t
            break
    exp = expected_leave_tick(P, kind, val)
    if got != exp:
        fails.append(("%s-%s" % (kind, "late" if (got is None or got > exp) else "early"),
                      "tick period %s, %s %s: frame left at tick %r, exact arithmetic says tick %d (first n>=1 with %s)" % (
                          P, kind, val, got, exp, "n*P >= T" if kind == "timeout" else "n >= N")))
    # clock values at every tick boundary while in frame a
    Pf = Fraction(P)
    for t, tk in enumerate(r["real"]["ticks"]):
        st = tk["snap"]["framers"]["m"]
        if st["active"] == "a" and t < exp:
            if abs(st["elapsed"] - float(t * Pf)) > 1e-9:
                fails.append(("elapsed-value", "tick period %s: elapsed at tick %d = %r, expected %s" % (P, t, st["elapsed"], t * Pf)))
            if st["recurred"] != t:
                fails.append(("recurred-value", "tick period %s: recurred at tick %d = %r, expected %d" % (P, t, st["recurred"], t)))
    return fails, r


SEQ_PROFILE = {"taskables": (1, 2), "auxes": (0, 1), "slaves": (0, 0), "frames": (2, 5), "acts": (0, 4), "depth": 2,
               "ticks": (6, 20), "periods": TICKS, "tasker_periods": [None, None, "0.1", "0.25", "0.3"],
               "aux_policy": "clean", "aux_owner": "taskable", "aux_place": "first", "let_in_aux": False, "aux_share": True,
               "kinds": {"data": 2, "go": 8, "let": 0, "timeout": 5, "repeat": 4, "aux": 1, "auxif": 0, "bid": 0, "done": 2, "fiat": 0},
               "needs": {"cmp": 1, "bool": 0, "elapsed": 7, "recurred": 5, "done": 0, "status": 0, "auxdone": 0},
               "elapsed_goals": [0.0, 0.05, 0.1, 0.15, 0.2, 0.25, 0.3, 0.4, 0.6, 0.7, 0.8, 0.9],
               "timeouts": ["0", "0.05", "0.1", "0.15", "0.2", "0.3", "0.35", "0.5", "0.7", "0.8"]}


def seq_nt(prog, r):
    dec = prog["period"] not in ("0.0625", "0.125", "0.25")
    forced = False
    for t, i, e in all_events(r["real"]):
        if e[0] == "f" and e[3] == "renter":
            forced = True
    return (dec or forced) and r["feats"]["go_true"] >= 1


def seq_classes(prog, r):
    out = ["decimal-tick" if prog["period"] not in ("0.0625", "0.125", "0.25") else "dyadic-tick"]
    out.append("transitions>=2" if r["feats"]["go_true"] >= 2 else "transitions<2")
    return out


SEQ = ProfileCheck(SEQ_PROFILE, [], seq_nt, seq_classes, quick=(6, 120), thorough=(16, 5000))


def plan(tier):
    shards = [{"part": "grid", "i": i, "n": 4} for i in range(4)]
    shards += [dict(s, part="seq") for s in SEQ.plan(tier)]
    shards += [{"part": "clone", "i": i, "n": 2} for i in range(2)]
    shards += [{"part": "watcher", "i": 0, "n": 1}]
    return shards


def clone_cases():
    """timeout / repeat written inside a framer that runs as a clone (its own clocks, not the moot original's)"""
    out = []
    for P in TICKS:
        for cond in [["timeout", t] for t in TOUTS[::2]] + [["repeat", n] for n in REPS[:5]]:
            for k, (tag, delay) in enumerate(itertools.product(CG.TAGS, (0, 3))):
                if (len(out) + k) % 2 and P not in ("0.125", "0.1"):
                    continue
                out.append({"P": P, "cond": cond, "tag": tag, "delay": delay, "bound": 26})
    return out


def work(shard, seed, tier):
    if shard["part"] == "seq":
        return SEQ.work(dict(shard, part="rand"), seed, tier)
    acc = Acc()
    if shard["part"] == "watcher":
        for P in TICKS:
            for conds in ([["timeout", "0.5"], ["repeat", 3], ["timeout", "0.3"]], [["repeat", 2], ["timeout", "0.25"]],
                          [["timeout", "0.1"], ["timeout", "0.7"], ["repeat", 1], ["repeat", 4]]):
                case = {"P": P, "conds": conds}
                fails = CG.check_handover(case)
                acc.case(key=("handover", P, repr(conds)), nontrivial=True, classes=["aux-handed-from-frame-to-frame"], sample=None)
                for sig, what in fails:
                    acc.fail(sig, what, {"handover": case})
        for P in TICKS:
            for T in ("0.1", "0.25", "0.3", "0.5", "0.7", "1.0"):
                for N in (2, 5, 9):
                    case = {"P": P, "T": T, "N": N}
                    fails = CG.check_watcher(case)
                    acc.case(key=("watcher", P, T, N), nontrivial=True, classes=["aux-reads-main-clocks"],
                             sample={"script": CG.watcher_script(T, N)} if (P, T, N) == ("0.125", "0.5", 5) else None)
                    for sig, what in fails:
                        acc.fail(sig, what, {"watcher": case})
        for P in TICKS:
            for cond in [["timeout", t] for t in ("0.0", "0.1", "0.25", "0.5", "1.0")] + [["repeat", n] for n in (1, 2, 3, 5)]:
                for delay in (0, 2):
                    case = {"P": P, "cond": cond, "delay": delay}
                    fails = CG.check_slave(case)
                    acc.case(key=("slave", P, repr(cond), delay), nontrivial=True, classes=["slave-started-and-run-in-one-tick"],
                             sample={"script": CG.slave_script(cond, delay)} if (P, delay, cond[1]) == ("0.125", 0, 3) else None)
                    for sig, what in fails:
                        acc.fail(sig, what, {"slave": case})
        acc.note("main framer clocks read by its auxiliary's transitions: tick periods x 6 thresholds x 3 counts enumerated")
        return acc
    if shard["part"] == "clone":
        cases = [c for j, c in enumerate(clone_cases()) if j % shard["n"] == shard["i"]]
        for j, case in enumerate(cases):
            fails, tr, info = CG.check(case)
            acc.case(key=("clone", repr(case)), nontrivial=True, classes=["clone-" + case["cond"][0]],
                     sample={"script": tr.get("text"), "expected_leave": info.get("exp")} if j % 97 == 0 else None)
            for sig, what in fails:
                acc.fail(sig, what, {"clone": case})
        acc.note("timeout/repeat inside cloned framers: %d (tick period, timeout|repeat, tag, delay) cases enumerated" % len(clone_cases()))
        return acc
    k = 0
    for P in TICKS:
        for kind, vals in (("timeout", TOUTS), ("repeat", REPS)):
            for val in vals:
                k += 1
                if k % shard["n"] != shard["i"]:
                    continue
                case = {"P": P, "kind": kind, "val": val}
                fails, r = check_single(case)
                Pf = Fraction(P)
                nt = (Pf.denominator & (Pf.denominator - 1)) != 0 or (kind == "timeout" and (Fraction(val) / Pf).denominator != 1)
                acc.case(key=("grid", P, kind, val), nontrivial=nt, classes=["grid-" + kind],
                         sample=dict(case, script=r["text"]) if k % 40 == 1 else None)
                for sig, what in fails:
                    acc.fail(sig, what, case)
    acc.exhaustive = True
    acc.note("single-frame grid: %d tick periods x %d timeouts + %d repeats enumerated" % (len(TICKS), len(TOUTS), len(REPS)))
    return acc


def replay(case):
    if "handover" in case:
        return CG.check_handover(case["handover"])
    if "watcher" in case:
        return CG.check_watcher(case["watcher"])
    if "slave" in case:
        return CG.check_slave(case["slave"])
    if "clone" in case:
        return CG.check(case["clone"])[0]
    if "prog" in case:
        return SEQ.replay(case)
    fails, r = check_single(case)
    return fails


RULE = ("(1) exhaustive grid tick period {1/16, 1/8, 0.05, 0.1, 0.2, 0.25, 0.3} x timeout T (17 values: zero, multiples, non-multiples, decimals) and "
        "repeat N in 0..6 on a single frame: leave tick and per-tick elapsed/recurred vs exact arithmetic; (2) Hypothesis frame sequences with "
        "timeouts/repeats/elapsed/recurred needs, nesting and forced re-entry on the same tick periods vs the exact-fraction reference interpreter. "
        "non-trivial = decimal tick period or T not a multiple of the tick (grid); decimal tick or forced re-entry with a taken transition "
        "(sequences); (3) timeout T / repeat N written inside a framer that runs as a clone (`aux moot as mine|tag`, entered after 0 or 3 ticks) on the "
        "same tick periods: leave tick relative to the clone's own entry vs exact arithmetic. distinct = distinct configuration / program")
ASSUMPTIONS = ["exact arithmetic on the decimal values written in the script is the ideal; evaluation n happens n ticks after the outline last changed",
               "elapsed values are compared with tolerance 1e-9 (ioflo rounds elapsed to nanoseconds, fix 96a80d9-lineage)"]
META = {"level": LEVEL,
        "text": "Every (tick period, timeout) and (tick period, repeat) pair of the grid is run and the tick of the transition compared with exact arithmetic; generated frame sequences with decimal clocks are compared tick by tick with an exact-fraction interpreter.",
        "note": "Grid and run lengths are bounded (<= 1.2 s of store time, <= 20 ticks for sequences).",
        "technique": "exhaustive grid + Hypothesis sequences vs exact-arithmetic oracle / reference interpreter",
        "design_ref": "DESIGN.md section 3, C11"}
