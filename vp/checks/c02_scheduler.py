"""C02 Scheduler runs each due tasker once per tick, on its period, in order.

Families.
(1) Exhaustive grid: houses built directly from recording Tasker subclasses (harness side):
tick period P and per-tasker periods p from a grid of binary-exact and decimal values
(given as decimal strings), 1-3 taskers, all front/mid/back assignments, run length in ticks,
optional self-abort of one tasker at tick k, optional period change (as a `bid` would do it:
tasker.period written by an earlier / later tasker of the same tick) at tick k.
(2) Hypothesis FloScript programs `framer .. be active in front|mid|back at p` with decimal tick
and framer periods, bids with `at p'`, through the real builder, compared with the reference
interpreter (exact rational time).
Oracle (1): exact rational scheduler: tick n has time t0 + n*P (t0 = the mission start
stamp given to the Skedder, from {0, 5, 2.5, 0.3, 100, 0.7}); tasker due_0 = t0; it runs at
tick n iff due <= t0 + n*P; after a run due += its current period; at most one run per tick; the
in-tick order is fronts + mids + backs in declaration order; an aborted tasker never runs
again. Comparison is on tick indices (counted by the harness), never on float stamps.
"""
import itertools
from fractions import Fraction

from hypothesis import strategies as st

from vp.core.acc import Acc
from vp.core import env
from vp.flo.profcheck import ProfileCheck

PROPERTY = "C02"
LEVEL = "exploration"

GRID = ["0", "0.0625", "0.125", "0.05", "0.1", "0.2", "0.25", "0.3", "0.375", "0.5", "0.7", "1.0"]
TICKS = ["0.0625", "0.125", "0.05", "0.1", "0.2", "0.25", "0.3", "0.5", "1.0"]
ORDERS = ["front", "mid", "back"]


T0S = ["0", "5", "2.5", "0.3", "100", "0.7"]     # mission start stamps (Skedder(stamp=t0))


def run_real(P, taskers, ticks, abort=None, change=None, t0="0"):
    """taskers: [(period string, order)], abort: (index, tick) tasker aborts itself (yields ABORTED) at its
    first run at or after that tick; change: (by index, target index, tick, new period string): tasker `by`
    writes target.period during its run at that tick. -> list of (tick, name) runs in order"""
    env.quiet_ioflo()
    from ioflo.base import housing, tasking, skedding
    from ioflo.base.globaling import STOPPED, STARTED, RUNNING, ABORTED, STOP, START, RUN, ABORT, ACTIVE
    housing.House.Clear()
    housing.ClearRegistries()
    house = housing.House(name="h")
    house.assignRegistries()
    log = []
    tick = [-1]
    objs = []

    class Rec(tasking.Tasker):
        def makeRunner(self):
            self.status = STOPPED
            self.desire = STOP
            idx = len(objs)
            while True:
                control = (yield self.status)
                if control == ABORT:
                    self.status = ABORTED
                    log.append((tick[0], self.name, "abort"))
                    continue
                log.append((tick[0], self.name, "run"))
                if change and change[0] == idx and tick[0] == change[2]:
                    objs[change[1]].period = float(change[3])
                if abort and abort[0] == idx and tick[0] >= abort[1]:
                    self.status = ABORTED
                    self.desire = ABORT
                elif control == START:
                    self.status = STARTED
                    self.desire = RUN
                elif control == RUN:
                    self.status = RUNNING
                else:
                    self.status = STOPPED

    for i, (p, order) in enumerate(taskers):
        # makeRunner runs inside __init__ (remake): idx = len(objs) there is the tasker's own index
        t = Rec(name="t%d" % i, store=house.store, period=float(p), schedule=ACTIVE)
        objs.append(t)
        house.taskers.append(t)
        {"front": house.fronts, "mid": house.mids, "back": house.backs}[order].append(t)
    house.orderTaskables()
    sk = skedding.Skedder(name="s", period=float(P), stamp=float(t0), houses=[house])
    orig = house.store.changeStamp

    def cs(stamp):
        if tick[0] + 1 > ticks:
            raise KeyboardInterrupt()
        orig(stamp)
        tick[0] += 1
    house.store.changeStamp = cs
    sk.run()
    return log


def run_model(P, taskers, ticks, abort=None, change=None, t0="0"):
    P = Fraction(P)
    t0 = Fraction(t0)
    n = len(taskers)
    period = [Fraction(p) for p, o in taskers]
    order = [i for o in ORDERS for i in range(n) if taskers[i][1] == o]
    ready = [[i, t0] for i in order]
    log = []
    t = 0
    while True:
        now = t0 + t * P
        more = False
        for _ in range(len(ready)):
            i, due = ready.pop(0)
            if due > now:
                ready.append([i, due])
                more = True     # its status is still started/running
                continue
            log.append((t, "t%d" % i, "run"))
            if change and change[0] == i and t == change[2]:
                period[change[1]] = Fraction(change[3])
            if abort and abort[0] == i and t >= abort[1]:
                continue            # aborted: never again
            ready.append([i, due + period[i]])
            more = True
        if not ready or not more:
            break
        if t + 1 > ticks:
            break
        t += 1
    for i, due in ready:
        log.append((t, "t%d" % i, "abort"))
    return log


def check_case(case):
    P, taskers, ticks = case["P"], [tuple(x) for x in case["taskers"]], case["ticks"]
    abort = tuple(case["abort"]) if case.get("abort") else None
    change = tuple(case["change"]) if case.get("change") else None
    t0 = case.get("t0", "0")
    real = run_real(P, taskers, ticks, abort, change, t0)
    model = run_model(P, taskers, ticks, abort, change, t0)
    fails = []
    if real != model:
        # first difference
        k = 0
        while k < min(len(real), len(model)) and real[k] == model[k]:
            k += 1
        r = real[k] if k < len(real) else None
        m = model[k] if k < len(model) else None
        sig = "schedule"
        if r and m and r[0] != m[0] and r[1] == m[1]:
            sig = "schedule-late-or-early"
        elif r and m and r[0] == m[0]:
            sig = "schedule-order-or-membership"
        fails.append((sig, "P=%s t0=%s taskers=%r ticks=%d abort=%r change=%r: first difference at event %d real=%r model=%r\nreal  %r\nmodel %r" % (
            P, t0, taskers, ticks, abort, change, k, r, m, real[:40], model[:40])))
    # direct invariants on the real log
    seen = set()
    dead = set()
    for t, name, what in real:
        if what == "run":
            if (t, name) in seen:
                fails.append(("ran-twice-in-tick", "%s ran twice in tick %d" % (name, t)))
            seen.add((t, name))
    return fails


def grid_cases(nt, slice_i=0, slice_n=1):
    idx = 0
    for P in TICKS:
        for ps in itertools.product(GRID, repeat=nt):
            for orders in itertools.product(ORDERS, repeat=nt):
                if nt > 1 and len(set(orders)) == 1 and orders[0] != "mid":
                    continue   # same as all-mid
                idx += 1
                if idx % slice_n != slice_i:
                    continue
                # the mission start stamp cycles through T0S with the configuration index (all of them for 1 tasker)
                for t0 in (T0S if nt == 1 else [T0S[idx % len(T0S)]]):
                    yield {"P": P, "taskers": [[p, o] for p, o in zip(ps, orders)], "ticks": 24, "t0": t0}


def nontrivial(case):
    P = Fraction(case["P"])
    for p, o in case["taskers"]:
        p = Fraction(p)
        if p > 0 and (P.denominator & (P.denominator - 1) or p.denominator & (p.denominator - 1) or (p / P).denominator != 1):
            return True
    return bool(case.get("abort") or case.get("change"))


# ---- FloScript family (periods through the builder, bids `at p`) ----
FLO_PROFILE = {"taskables": (1, 4), "auxes": (0, 0), "slaves": (0, 0), "frames": (1, 3), "acts": (0, 3), "depth": 1,
               "ticks": (6, 24), "periods": ["0.05", "0.1", "0.125", "0.2", "0.25", "0.3"],
               "tasker_periods": [None, "0.05", "0.1", "0.2", "0.25", "0.3", "0.375", "0.5", "0.7"],
               "kinds": {"data": 3, "go": 3, "let": 0, "timeout": 1, "repeat": 1, "aux": 0, "auxif": 0, "bid": 6, "done": 0, "fiat": 0},
               "needs": {"cmp": 3, "bool": 0, "elapsed": 0, "recurred": 3, "done": 0, "status": 1, "auxdone": 0},
               "bid_periods": ["0.05", "0.1", "0.25", "0.3", "0.0"]}


def flo_nt(prog, r):
    return any(fr.get("period") not in (None, "0.125", "0.25", "0.375", "0.5") for fr in prog["framers"]) or \
        prog["period"] not in ("0.125", "0.25")


def flo_classes(prog, r):
    out = ["decimal-tick" if prog["period"] not in ("0.125", "0.25") else "dyadic-tick"]
    if r["feats"]["bid"]:
        out.append("bid-ran")
    return out


FLO = ProfileCheck(FLO_PROFILE, [], flo_nt, flo_classes, quick=(4, 100), thorough=(8, 3000))


def plan(tier):
    shards = [{"part": "grid", "nt": 1, "i": 0, "n": 1}]
    if tier == "quick":
        shards += [{"part": "grid", "nt": 2, "i": i, "n": 8, "every": 3} for i in range(8)]
        shards += [{"part": "events", "i": i, "n": 4, "count": 150} for i in range(4)]
    else:
        shards += [{"part": "grid", "nt": 2, "i": i, "n": 8, "every": 1} for i in range(8)]
        shards += [{"part": "grid", "nt": 3, "i": i, "n": 16, "every": 23} for i in range(16)]
        shards += [{"part": "events", "i": i, "n": 8, "count": 3000} for i in range(8)]
    shards += [dict(s, part="flo") for s in FLO.plan(tier)]
    return shards


def work(shard, seed, tier):
    if shard["part"] == "flo":
        return FLO.work(dict(shard, part="rand"), seed, tier)
    acc = Acc()
    if shard["part"] == "grid":
        every = shard.get("every", 1)
        off = seed % every
        k = 0
        for case in grid_cases(shard["nt"], shard["i"], shard["n"]):
            k += 1
            if k % every != off:
                continue
            fails = check_case(case)
            nt = nontrivial(case)
            acc.case(key=("grid", case["P"], case["t0"], tuple(map(tuple, case["taskers"]))), nontrivial=nt,
                     classes=["grid-%d-taskers" % shard["nt"]] + (["decimal"] if nt else ["dyadic-multiple"]) +
                     (["start-stamp-nonzero"] if case["t0"] != "0" else []),
                     sample=case if k % 2000 == 1 else None)
            for sig, what in fails:
                acc.fail(sig, what, case)
        if every == 1:
            acc.exhaustive = True
            acc.note("grid with %d tasker(s): all tick periods x periods x orders enumerated" % shard["nt"])
        else:
            acc.note("grid with %d taskers: every %d-th configuration (offset from seed)" % (shard["nt"], every))
        return acc
    # random configurations with abort / period-change events
    from vp.core.hyp import campaign, Outcome

    @st.composite
    def cfg(draw):
        nt = draw(st.integers(1, 4))
        case = {"P": draw(st.sampled_from(TICKS)),
                "taskers": [[draw(st.sampled_from(GRID)), draw(st.sampled_from(ORDERS))] for _ in range(nt)],
                "ticks": draw(st.integers(4, 40)), "t0": draw(st.sampled_from(T0S))}
        if draw(st.booleans()):
            case["abort"] = [draw(st.integers(0, nt - 1)), draw(st.integers(0, 12))]
        if draw(st.booleans()):
            case["change"] = [draw(st.integers(0, nt - 1)), draw(st.integers(0, nt - 1)), draw(st.integers(0, 12)),
                              draw(st.sampled_from(GRID))]
        return case

    def execute(case):
        fails = check_case(case)
        cl = []
        if case.get("abort"):
            cl.append("self-abort")
        if case.get("change"):
            cl.append("period-change-before-target" if case["change"][0] < case["change"][1] else "period-change-after-or-self")
        return Outcome(fails, nontrivial=nontrivial(case), classes=cl or ["plain"], key=case, sample=case)
    campaign(acc, cfg(), execute, shard["count"], seed * 1000 + shard["i"])
    return acc


def replay(case):
    if "prog" in case:
        return FLO.replay(case)
    return check_case(case)


RULE = ("(1) exhaustive grid of tick period x per-tasker periods (binary-exact and decimal strings) x mission start stamp x front/mid/back orders for 1-2 (quick: every 3rd of the "
        "2-tasker grid; thorough: all, plus a slice of 3 taskers) recording taskers over 24 ticks, plus Hypothesis configurations with a self-abort and "
        "a period change written by another tasker; oracle = exact rational scheduler compared on tick indices; (2) Hypothesis FloScript programs with "
        "decimal tick/framer periods and `bid .. at p` vs the reference interpreter. non-trivial = a positive period that is decimal or not an integer "
        "multiple of the tick, or an abort / period change; distinct = distinct configuration / program")
ASSUMPTIONS = ["the ideal schedule is defined in exact rational arithmetic on the decimal values written by the user; ioflo is required to match it for runs of the explored length (its float accumulation error stays far below its 1 ns tolerance there)",
               "a tasker whose due time has not come still counts as started/running for the stop condition (it keeps the run alive)"]
META = {"level": LEVEL,
        "text": "The whole grid of (tick, period, order) combinations for small houses is enumerated and compared, tick by tick, with an exact-arithmetic scheduler; random configurations add aborts and run-time period changes; FloScript-declared periods and bids go through the real builder and the reference interpreter.",
        "note": "Exactness is claimed for the explored run lengths only (<= 40 ticks); recording taskers are harness-side Tasker subclasses.",
        "technique": "exhaustive enumeration + Hypothesis configurations vs exact rational reference scheduler; FloScript differential",
        "design_ref": "DESIGN.md section 3, C02"}
