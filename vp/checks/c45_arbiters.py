"""C45 Arbiters select outputs by their documented rules (ioflo/base/arbiting.py).

Generator: every arbiter is constructed directly on a fresh Store (the way the legacy module
test does), with input shares carrying value/truth and the (selection, importance) pairs
passed through `inputs`; the default share's value/truth are set before construction.
  * exhaustive tables for 1 and 2 inputs: selection {True, False, 0, 1} x truth {None, True,
    False, -0.5, 0, 0.3, 0.5, 1, 1.7} x importance {0.25, 0.5, 1.0} (+ 0 for the weighted
    arbiter only) x default truth {0, 0.3, 0.5, 1}, values cycled through {0, 1.5, -2, 'a',
    None} so that every input and the default carry different values;
  * Hypothesis: 3-4 inputs from the same sets (+ a few more truths), with forced ties
    (copying truth / importance between inputs), default truth also None / True / out of range.
Oracle: independent reference of the four documented rules (see `reference`), exact Fractions
for the weighted average (tolerance 1e-9), output share value and truth compared after one
`action()`; any exception is a failure ("never raising").
"""
import math
from fractions import Fraction

from hypothesis import strategies as st

from vp.core.acc import Acc
from vp.core.hyp import campaign, Outcome, Budget

PROPERTY = "C45"
LEVEL = "exploration"
RULE = ("exhaustive tables for 1-2 inputs over selection{True,False,0,1} x truth{None,True,False,-0.5,0,0.3,0.5,1,1.7} x "
        "importance{0.25,0.5,1.0 (+0 weighted)} x default truth{0,0.3,0.5,1} with distinct values from {0,1.5,-2,'a',None}; "
        "Hypothesis-generated 3-4 input tables with forced ties; oracle = independent reference of the four documented "
        "rules on output value and truth, no exception allowed; non-trivial = >= 2 selected inputs with a tie in (fixed) "
        "truth or importance; distinct = (arbiter, default truth/value, input table)")
ASSUMPTIONS = [
    "truth fixing as documented: None/True -> 1.0, False -> 0.0, numbers clamped to [0,1]; default truth fixed at construction",
    "switch outputs the selected input's raw truth; priority/trusted are accepted with either the raw or the fixed truth "
    "of the winner (docstrings say 'found input's value/truth' and 'confidence constrained to [0,1]')",
    "importances are strictly positive for priority/trusted (zero only for weighted): the docstring does not say whether a "
    "zero-importance input may win",
    "weighted arbiter: only *selected* inputs take part; a non-numeric value of a selected input gives the default; "
    "sum(imp*truth) == 0 gives the default; when the exact weighted truth is within 1e-9 of the default truth (and not "
    "exactly computable in binary floating point) either branch is accepted",
    "ties are broken in favour of the earlier input ('find first ...')",
]
META = {
    "level": "exploration",
    "text": "The complete decision tables for one and two inputs over representative value sets (every truth kind, tie and "
            "threshold coincidence) are enumerated and compared with an independent reference; three and four inputs are "
            "sampled with ties forced. Arbiters are stateless between updates, so input tables are the whole input space "
            "shape; absence of a violation is shown only for the explored tables.",
    "note": "Trusts the harness reference of the docstring rules; arbiters are driven directly (constructor + action()), not via FloScript.",
    "technique": "exhaustive small decision tables + Hypothesis sampling with forced ties vs independent reference model (differential)",
    "design_ref": "DESIGN.md section 3, C45",
}


def _preload():
    """Import the ioflo modules under test once in the parent process (vp.cli imports this module after
    env.use_repo()), so that the forked shard workers do not each recompile ioflo (~1 s per shard)."""
    try:
        from vp.core import env
        env.use_repo()
        import ioflo.base.storing
        import ioflo.base.arbiting
    except Exception:       # the lazy imports inside the check functions report the real error
        pass


_preload()

ARBS = ["switch", "priority", "trusted", "weighted"]
SELS = [True, False, 0, 1]
TRUTHS = [None, True, False, -0.5, 0, 0.3, 0.5, 1, 1.7]
IMPS = [0.25, 0.5, 1.0]
IMPS_W = [0, 0.25, 0.5, 1.0]
DTS = [0, 0.3, 0.5, 1]
VALS = [0, 1.5, -2, "a", None]
DEFAULT_VALUE = 99.5
# value pairs for the weighted arbiter (mostly numeric so that the average is exercised)
WPAIRS = [(0, 1.5), (1.5, -2), (-2, 0), (1.5, 1.5), (-2, 1.5), (0, -2), (1.5, 0), (-2, -2),
          ("a", 1.5), (0, None), (None, "a"), (1.5, "a")]
TOL = Fraction(1, 10 ** 9)


# ------------------------------------------------------------------------------- reference
def fix(t):
    if t is None or t is True:
        return 1.0
    if t is False:
        return 0.0
    return float(min(1.0, max(0.0, t)))


def is_number(v):
    return isinstance(v, (int, float)) and not isinstance(v, bool)


def _dyadic_safe(xs):
    """all values are multiples of 1/64 below 64: products and sums of a handful are exact in binary64."""
    for x in xs:
        f = Fraction(x)
        if abs(f) > 64 or (f * 64).denominator != 1:
            return False
    return True


def reference(arb, dt, dv, inputs):
    """Expected output. Returns dict(kind='input'|'default'|'weighted'|'either', ...).

    inputs: list of (sel, truth, imp, value). dt is the default truth as given (fixed here).
    """
    dtf = fix(dt)
    default = {"kind": "default", "value": dv, "truth": dtf}
    sel = [i for i, x in enumerate(inputs) if x[0]]
    if arb == "switch":
        if sel:
            i = sel[0]
            return {"kind": "input", "index": i, "value": inputs[i][3], "truth": inputs[i][1], "raw": True}
        return default
    if arb in ("priority", "trusted"):
        cand = [i for i in sel if fix(inputs[i][1]) > dtf]
        if not cand:
            return default
        if arb == "trusted":
            tm = max(fix(inputs[i][1]) for i in cand)
            cand = [i for i in cand if fix(inputs[i][1]) == tm]
        im = max(inputs[i][2] for i in cand)
        i = [i for i in cand if inputs[i][2] == im][0]
        return {"kind": "input", "index": i, "value": inputs[i][3], "truth": inputs[i][1], "raw": False}
    # weighted
    if any(not is_number(inputs[i][3]) for i in sel):
        return default
    A = sum(Fraction(inputs[i][2]) * Fraction(fix(inputs[i][1])) for i in sel)
    B = sum(Fraction(inputs[i][2]) for i in sel)
    if A == 0 or B == 0:
        return default
    V = sum(Fraction(inputs[i][2]) * Fraction(fix(inputs[i][1])) * Fraction(inputs[i][3]) for i in sel) / A
    conf = A / B
    weighted = {"kind": "weighted", "value": V, "truth": conf}
    D = Fraction(dtf)
    safe = _dyadic_safe([inputs[i][2] for i in sel] + [fix(inputs[i][1]) for i in sel])
    if abs(conf - D) <= TOL and not (conf == D and safe):
        return {"kind": "either", "a": weighted, "b": default}
    return weighted if conf > D else default


def same(a, b):
    """value identity as far as observable: same type and equal (None is None)."""
    if a is None or b is None:
        return a is None and b is None
    return type(a) is type(b) and a == b


def matches(exp, val, truth):
    if exp["kind"] == "either":
        return matches(exp["a"], val, truth) or matches(exp["b"], val, truth)
    if exp["kind"] == "default":
        return same(val, exp["value"]) and isinstance(truth, float) and truth == exp["truth"]
    if exp["kind"] == "input":
        if not same(val, exp["value"]):
            return False
        if exp["raw"]:
            return same(truth, exp["truth"])
        return same(truth, exp["truth"]) or (isinstance(truth, float) and truth == fix(exp["truth"]))
    # weighted
    if not (is_number(val) and is_number(truth) and math.isfinite(val) and math.isfinite(truth)):
        return False
    return (abs(Fraction(val) - exp["value"]) <= TOL * max(1, abs(exp["value"]))
            and abs(Fraction(truth) - exp["truth"]) <= TOL)


def describe(exp):
    if exp["kind"] == "either":
        return "%s or %s" % (describe(exp["a"]), describe(exp["b"]))
    if exp["kind"] == "default":
        return "default (value=%r truth=%r)" % (exp["value"], exp["truth"])
    if exp["kind"] == "input":
        return "input #%d (value=%r truth=%r%s)" % (exp["index"], exp["value"], exp["truth"],
                                                    "" if exp["raw"] else " fixed to %r" % fix(exp["truth"]))
    return "weighted average (value=%s truth=%s)" % (float(exp["value"]), float(exp["truth"]))


# ------------------------------------------------------------------------------- system under test
def run_arbiter(arb, dt, dv, inputs):
    """Build store + arbiter, run action() once. Returns (value, truth) or raises."""
    from ioflo.base import storing, arbiting
    from ioflo.aid.odicting import odict
    cls = {"switch": arbiting.ArbiterSwitch, "priority": arbiting.ArbiterPriority,
           "trusted": arbiting.ArbiterTrusted, "weighted": arbiting.ArbiterWeighted}[arb]
    storing.Store.Clear()
    store = storing.Store(name="c45", stamp=0.0)
    try:
        dsh = store.create("arb.default").update(value=dv)
        dsh.truth = dt
        ins = odict()
        for i, (sel, truth, imp, val) in enumerate(inputs):
            path = "feed.in%d" % i
            sh = store.create(path).update(value=val)
            sh.truth = truth
            ins["tag%d" % i] = (path, sel, imp)
        a = cls(name="arbiter", store=store, output="result.out", group="arb", inputs=ins)
        a.action()
        return a.output.value, a.output.truth
    finally:
        storing.Store.Clear()


_QUIET = [False]


def check_case(case):
    """case = {arb, dt, dv, inputs: [[sel, truth, imp, value], ...]} -> (fails, info)."""
    if not _QUIET[0]:
        from vp.core import env
        env.quiet_ioflo()
        _QUIET[0] = True
    arb, dt, dv = case["arb"], case["dt"], case["dv"]
    inputs = [tuple(x) for x in case["inputs"]]
    exp = reference(arb, dt, dv, inputs)
    fails = []
    try:
        val, truth = run_arbiter(arb, dt, dv, inputs)
    except Exception as ex:
        import traceback
        tb = traceback.extract_tb(ex.__traceback__)
        where = "%s:%s" % (tb[-1].filename.rsplit("/", 1)[-1], tb[-1].name) if tb else "?"
        fails.append(("%s-raises-%s@%s" % (arb, type(ex).__name__, where),
                      "%s arbiter raised %r for default truth %r, inputs (sel, truth, imp, value) = %r; documented result: %s"
                      % (arb, ex, dt, inputs, describe(exp))))
        return fails, exp
    if not matches(exp, val, truth):
        if exp["kind"] == "default":
            sig = "%s-should-output-default" % arb
        elif exp["kind"] == "input":
            sig = "%s-wrong-selection" % arb
        else:
            sig = "%s-wrong-average" % arb
        fails.append((sig, "%s arbiter output value=%r truth=%r for default truth %r (value %r), inputs (sel, truth, imp, value) = %r; "
                           "documented result: %s" % (arb, val, truth, dt, dv, inputs, describe(exp))))
    return fails, exp


def analyse(case, exp):
    """(nontrivial, classes) per RULE."""
    inputs = case["inputs"]
    arb = case["arb"]
    sel = [x for x in inputs if x[0]]
    cls = [arb, "%s-%d-inputs" % (arb, len(inputs)), "%s-selected-%d" % (arb, len(sel)), "%s->%s" % (arb, exp["kind"])]
    ft = [fix(x[1]) for x in sel]
    tie_t = len(set(ft)) < len(ft)
    tie_i = len(set(x[2] for x in sel)) < len(sel)
    if tie_t:
        cls.append(arb + "-tie-truth")
    if tie_i:
        cls.append(arb + "-tie-importance")
    if tie_t and tie_i and any(a is not b and fix(a[1]) == fix(b[1]) and a[2] == b[2] for a in sel for b in sel):
        cls.append(arb + "-tie-both")
    dtf = fix(case["dt"])
    if any(t == dtf for t in ft):
        cls.append(arb + "-truth-equals-threshold")
    if exp["kind"] == "input" and exp["index"] > 0:
        cls.append(arb + "-later-input-wins")
    if arb == "weighted" and any(not is_number(x[3]) for x in sel):
        cls.append("weighted-non-numeric-selected")
    return (len(sel) >= 2 and (tie_t or tie_i)), cls


# ------------------------------------------------------------------------------- enumeration
# reduced sets for the complete 3-input tables of the thorough tier
SELS3 = [True, False]
TRUTHS3 = [None, False, 0.3, 0.5, 1.7]
IMPS3 = [0.25, 1.0]
IMPS3_W = [0, 0.25, 1.0]
WTRIPLES = [(0, 1.5, -2), (1.5, -2, 0), (-2, -2, 1.5), (1.5, 1.5, 1.5), (0, -2, 4), ("a", 1.5, 0), (0, None, 1.5), (1.5, 0, "a")]


def _sets(arb, n):
    if n == 3:
        return SELS3, TRUTHS3, (IMPS3_W if arb == "weighted" else IMPS3)
    return SELS, TRUTHS, (IMPS_W if arb == "weighted" else IMPS)


def _space(arb, n):
    sels, truths, imps = _sets(arb, n)
    per = len(sels) * len(truths) * len(imps)
    return per ** n * len(DTS), per, imps


def _decode(arb, n, idx):
    """idx -> case (mixed radix; values cycle with idx so that inputs/default differ)."""
    total, per, imps = _space(arb, n)
    sels, truths, imps = _sets(arb, n)
    k = idx
    dt = DTS[k % len(DTS)]
    k //= len(DTS)
    rows = []
    for j in range(n):
        r = k % per
        k //= per
        s = sels[r % len(sels)]
        r //= len(sels)
        t = truths[r % len(truths)]
        r //= len(truths)
        rows.append([s, t, imps[r]])
    if arb == "weighted":
        if n == 1:
            vals = [VALS[idx % len(VALS)]]
        elif n == 2:
            vals = list(WPAIRS[idx % len(WPAIRS)])
        else:
            vals = list(WTRIPLES[idx % len(WTRIPLES)])
    else:
        vals = [VALS[(idx + j) % len(VALS)] for j in range(n)]
    for j in range(n):
        rows[j].append(vals[j])
    return {"arb": arb, "dt": dt, "dv": DEFAULT_VALUE, "inputs": rows}


NCHUNK = 4


def plan(tier):
    shards = []
    for arb in ARBS:
        shards.append({"part": "exh", "arb": arb, "n": 1, "k": 0, "K": 1})
        for k in range(NCHUNK):
            shards.append({"part": "exh", "arb": arb, "n": 2, "k": k, "K": NCHUNK})
        if tier == "thorough":      # complete 3-input tables over reduced sets (SELS3 x TRUTHS3 x IMPS3)
            for k in range(2):
                shards.append({"part": "exh", "arb": arb, "n": 3, "k": k, "K": 2})
    nrand = 4 if tier == "quick" else 16
    shards += [{"part": "rand", "i": i} for i in range(nrand)]
    return shards


def _strategy():
    truth = st.sampled_from(TRUTHS + [0.7, 0.31, 2, -1, 0.5, 0.3, 1.0])
    sel = st.sampled_from([True, True, True, True, True, 1, "yes", 2.5, False, 0, "", None])
    dts = st.sampled_from(DTS + [0.0, 0.5, 0.3, None, True, False, 1.7, -0.5, 0.7])

    def table(arb):
        imp = st.sampled_from(IMPS_W + [0.75, 1, 2.0, 5] if arb == "weighted" else IMPS + [0.75, 1, 2.0, 5])   # any non negative number
        val = st.sampled_from([0, 1.5, -2, 4, 0.5, 7, "a", None]) if arb == "weighted" else None
        n = st.integers(3, 4)

        def build(n, sels, truths, imps, copies, vals, perm, dt):
            rows = []
            for j in range(n):
                rows.append([sels[j], truths[j], imps[j]])
            # forced ties: copy truth and/or importance from an earlier row
            for (dst, src, what) in copies:
                dst %= n
                src %= n
                if what in (0, 2):
                    rows[dst][1] = rows[src][1]
                if what in (1, 2):
                    rows[dst][2] = rows[src][2]
            for j in range(n):
                if arb == "weighted":
                    rows[j].append(vals[j])
                else:
                    rows[j].append(VALS[perm[j]])
            return {"arb": arb, "dt": dt, "dv": DEFAULT_VALUE, "inputs": rows}

        copy = st.tuples(st.integers(0, 3), st.integers(0, 3), st.integers(0, 2))
        return st.builds(build, n, st.lists(sel, min_size=4, max_size=4), st.lists(truth, min_size=4, max_size=4),
                         st.lists(imp, min_size=4, max_size=4), st.lists(copy, min_size=0, max_size=3),
                         st.lists(val, min_size=4, max_size=4) if val is not None else st.just(None),
                         st.permutations(list(range(len(VALS)))), dts)
    return st.sampled_from(ARBS).flatmap(table)


def _key(case):
    return repr((case["arb"], case["dt"], case["dv"], case["inputs"]))


def work(shard, seed, tier):
    acc = Acc()
    if shard["part"] == "exh":
        arb, n = shard["arb"], shard["n"]
        total = _space(arb, n)[0]
        lo = total * shard["k"] // shard["K"]
        hi = total * (shard["k"] + 1) // shard["K"]
        for idx in range(lo, hi):
            case = _decode(arb, n, idx)
            fails, exp = check_case(case)
            nt, cls = analyse(case, exp)
            acc.case(key=_key(case).encode(), nontrivial=nt, classes=cls, sample=case if idx % 7919 == 11 else None)
            for sig, what in fails:
                acc.fail(sig, what, case)
        acc.exhaustive = True
        acc.note("complete 1- and 2-input tables per arbiter over the listed selection/truth/importance/default-truth sets "
                 "(values assigned cyclically, not enumerated); thorough tier: also complete 3-input tables over selection{True,False} x "
                 "truth{None,False,0.3,0.5,1.7} x importance{0.25,1.0 (+0 weighted)} x the four default truths")
        return acc

    n = 1000 if tier == "quick" else 12000

    def execute(case):
        fails, exp = check_case(case)
        nt, cls = analyse(case, exp)
        return Outcome(fails, nontrivial=nt, classes=["rand"] + cls, key=_key(case), sample=case)

    campaign(acc, _strategy(), execute, n, seed * 1000 + shard["i"], budget=Budget(120 if tier == "quick" else 900))
    return acc


def replay(case):
    return check_case(case)[0]
