"""C35 Datagram stacks send each destination's packets once, in queue order.

Fault enumeration (exhaustive): every queue of <= N packets over 3 destinations x every sequence of
<= 3 service passes, each pass with its own set of transiently failing destinations, followed by
healthy passes. The stack (UdpStack / GramStack) is given a handler double whose send() raises
socket.error with one of the nine transient errnos for a failing destination and records every
datagram it accepts; no real socket exists.
Oracle per pass: exactly the queued packets whose destination does not fail in this pass are sent,
nothing twice, every destination's packets in queue order, bytes and address intact; at the end
everything was sent exactly once.
"""
import errno
import itertools
import socket

from vp.core.acc import Acc

PROPERTY = "C35"
LEVEL = "fault_enumeration"
RULE = ("exhaustive: all queues (sequences of destination indices, 3 destinations) of length 1..N x all "
        "sequences of 0..3 faulty passes where each pass fails a subset of the destinations occurring in the "
        "queue (failing an absent destination is unobservable), then healthy passes; four variants: "
        "UdpStack.serviceTxPkts with a destination failing all its sends of the pass ('all') or only the "
        "first attempt ('first', so that a later packet to it would get through if the stack tried), "
        "GramStack.serviceTxPkts ('all'), UdpStack.serviceTxPktsOnce with a pass = as many one-packet calls as "
        "packets are pending at its start ('once-pass'), and with one fault set per single call ('once-call'; "
        "oracle: order, exactly-once, a call in which nothing fails sends a packet). N = 4/4/4/4/4 quick, "
        "6/6/5/6/6 thorough. errno rotates over the nine transient errnos as a "
        "function of the case. non-trivial = some pass starts with packets queued for both a failing and a "
        "healthy destination; distinct = (variant, queue, fault sets)")
ASSUMPTIONS = [
    "a 'service pass' is one call of serviceTxPkts(); in the once-pass variant it is m consecutive calls of serviceTxPktsOnce() where m = packets pending at the start of the pass (enough calls to serve every queued packet once)",
    "'sent' = handler.send(data, ha) returned; a send that raised one of the transient errnos listed in GramStack._serviceOneTxPkt sent nothing",
    "a failing destination 'blocks' another one when a packet queued for a destination that does not fail in a pass is not sent in that pass",
    "handler double implements reopen/close/opened/ha/send/receive only; all packets are queued with stack.transmit(pkt, ha) before the first pass, each with its own address tuple object (equal per destination)",
]
META = {
    "level": LEVEL,
    "text": "The complete space of queues x per-pass fault sets named by the property is enumerated (thorough tier: "
            "all queues up to six packets, up to three faulty passes), for both fault shapes and both service entry "
            "points, against an exact per-pass oracle.",
    "note": "Trusts the handler double and the harness bookkeeping; quick tier enumerates queues up to 4 packets only. "
            "Faults are injected at handler.send; the real UDP socket is not involved.",
    "technique": "exhaustive fault enumeration with a handler double and an exact reference schedule",
    "design_ref": "DESIGN.md section 3, C35",
}

ERRNOS = [errno.ECONNREFUSED, errno.ECONNRESET, errno.ENETRESET, errno.ENETUNREACH, errno.EHOSTUNREACH,
          errno.ENETDOWN, errno.EHOSTDOWN, errno.ETIMEDOUT, errno.ETIME]
DESTS = [("127.0.0.1", 7001), ("127.0.0.1", 7002), ("127.0.0.1", 7003)]
VARIANTS = ["udp-pkts-all", "udp-pkts-first", "gram-pkts-all", "udp-once-pass", "udp-once-call"]
NMAX = {"quick": {"udp-pkts-all": 4, "udp-pkts-first": 4, "gram-pkts-all": 4, "udp-once-pass": 4, "udp-once-call": 4},
        "thorough": {"udp-pkts-all": 6, "udp-pkts-first": 6, "gram-pkts-all": 5, "udp-once-pass": 6, "udp-once-call": 6}}


class HandlerDouble(object):
    """Stands in for SocketUdpNb: records datagrams, raises transient errors for failing destinations."""

    def __init__(self):
        self.opened = True
        self.ha = ("127.0.0.1", 7000)
        self.failing = ()        # destinations failing in the current pass
        self.first_only = False  # only the first attempt per destination and pass fails
        self.attempted = set()
        self.salt = 0
        self.log = []            # (bytes, ha) accepted
        self.raised = []         # errnos raised

    def reopen(self):
        self.opened = True
        return True

    def close(self):
        self.opened = False

    def receive(self):
        return (b"", None)

    def send(self, data, ha):
        if ha in self.failing and not (self.first_only and ha in self.attempted):
            self.attempted.add(ha)
            eno = ERRNOS[(self.salt + DESTS.index(ha)) % len(ERRNOS)]
            self.raised.append(eno)
            raise socket.error(eno, "injected transient failure")
        self.log.append((bytes(data), ha))
        return len(data)


def _mk_stack(variant, handler):
    from ioflo.aio.proto import stacking
    if variant.startswith("gram"):
        return stacking.GramStack(handler=handler, name="alpha", ha=("127.0.0.1", 7000))
    return stacking.UdpStack(handler=handler, name="alpha", ha=("127.0.0.1", 7000))


def run_case(variant, q, masks):
    """q: list of destination indices; masks: per-pass bitmask of failing destinations.
    Returns (fails, nontrivial, errnos raised)."""
    from ioflo.aio.proto import packeting
    once = variant.startswith("udp-once")
    percall = variant == "udp-once-call"   # fault set per single serviceTxPktsOnce() call
    h = HandlerDouble()
    h.first_only = variant.endswith("first")
    try:
        stack = _mk_stack(variant, h)
    except Exception as ex:
        return [("setup-%s" % type(ex).__name__, "creating the stack with a handler double raised %r" % (ex,))], False, []
    n = len(q)
    payload = [b"pkt-%d-to-%d" % (i, d) for i, d in enumerate(q)]
    index = {payload[i]: i for i in range(n)}
    for i, d in enumerate(q):
        # every packet carries its own (equal, not identical) address tuple, as addresses taken from recvfrom() do
        stack.transmit(packeting.Packet(stack=stack, packed=payload[i]), (DESTS[d][0], DESTS[d][1]))
    if len(stack.txPkts) != n:
        return [("queueing", "transmit() of %d packets left %d entries in .txPkts" % (n, len(stack.txPkts)))], False, []
    sent = [False] * n
    fails = []
    nontrivial = False
    salt0 = n + sum(q) + sum(masks)
    # faulty passes, then healthy ones: one healthy pass must drain the stack; two more detect re-sends.
    # In the once variant a pass is as many serviceTxPktsOnce() calls as packets are pending at its start
    # (the number of calls that serves every queued packet when nothing fails).
    # In the once-call variant every call has its own fault set; n + 2 healthy calls follow.
    schedule = list(masks) + [0] * ((n + 2) if percall else 3)
    for p, mask in enumerate(schedule):
        failing = tuple(DESTS[d] for d in range(3) if mask >> d & 1)
        pending = [i for i in range(n) if not sent[i]]
        pend_fail = [i for i in pending if mask >> q[i] & 1]
        pend_ok = [i for i in pending if not mask >> q[i] & 1]
        if pend_fail and pend_ok:
            nontrivial = True
        h.failing, h.attempted, h.salt = failing, set(), salt0 + 3 * p
        mark = len(h.log)
        try:
            if once:
                for _ in range(1 if percall else max(1, len(pending))):
                    stack.serviceTxPktsOnce()
            else:
                stack.serviceTxPkts()
        except Exception as ex:
            fails.append(("raise-%s@%s" % (type(ex).__name__, "serviceTxPktsOnce" if once else "serviceTxPkts"),
                          "pass %d (failing %r) raised %r" % (p, failing, ex)))
            break
        now = []
        for data, ha in h.log[mark:]:
            i = index.get(data)
            if i is None or ha != DESTS[q[i]]:
                fails.append(("corrupt-datagram", "pass %d sent %r to %r which was never queued like that" % (p, data, ha)))
                continue
            if sent[i] or i in now:
                fails.append(("duplicate-send", "pass %d sent packet #%d (%r) a second time" % (p, i, data)))
                continue
            earlier = [j for j in range(i) if q[j] == q[i] and not sent[j] and j not in now]
            if earlier:
                fails.append(("order@" + ("serviceTxPktsOnce" if once else "serviceTxPkts"),
                              "pass %d sent packet #%d to destination %d before the earlier queued packet(s) %r to the "
                              "same destination" % (p, i, q[i], earlier)))
            now.append(i)
        for i in now:
            sent[i] = True
        if fails:
            break
        if once and len(now) > (1 if percall else max(1, len(pending))):
            fails.append(("once-sent-many", "%d serviceTxPktsOnce call(s) sent %d packets"
                          % (1 if percall else max(1, len(pending)), len(now))))
            break
        if percall:
            # per-call faults: only order / exactly-once (above) and progress of a healthy call are demanded
            if mask == 0 and pending and not now:
                fails.append(("healthy-once-call-sent-nothing", "call %d: nothing fails, %d packets pending, none sent"
                              % (p, len(pending))))
                break
            continue
        missed = [i for i in pend_ok if not sent[i]]
        if missed:
            sig = "blocked-by-failing-destination" if pend_fail else "healthy-pass-left-packets"
            if once:
                sig += "@serviceTxPktsOnce"
            fails.append((sig, "pass %d%s: destinations %r fail; packets %r (destinations %r) do not fail in this pass "
                          "and were queued, but were not sent in this pass"
                          % (p, " (%d serviceTxPktsOnce calls)" % max(1, len(pending)) if once else "",
                             [d for d in range(3) if mask >> d & 1], missed, [q[i] for i in missed])))
            break
    if not fails:
        lost = [i for i in range(n) if not sent[i]]
        if lost or stack.txPkts:
            fails.append(("lost-packet", "after the healthy passes packets %r were never sent; .txPkts holds %d entries"
                          % (lost, len(stack.txPkts))))
    return fails, nontrivial, h.raised


def explain(variant, q, masks):
    return {"variant": variant, "q": list(q), "masks": list(masks)}


def mask_sequences(present):
    """All sequences of 0..3 per-pass fault masks over the destinations present in the queue."""
    subsets = [m for m in range(8) if m & ~present == 0]
    out = [()]
    for k in (1, 2, 3):
        out.extend(itertools.product(subsets, repeat=k))
    return out


def plan(tier):
    """Work units (variant, length, prefix) are dealt greedily to 8 (quick) / 16 (thorough) shards."""
    units = []
    for variant in VARIANTS:
        nmax = NMAX[tier][variant]
        for n in range(1, nmax + 1):
            if n <= 3:
                units.append((4 ** n, {"variant": variant, "n": n, "prefix": []}))
            else:
                for a in range(3):
                    for b in range(3):
                        units.append((4 ** n // 9, {"variant": variant, "n": n, "prefix": [a, b]}))
    nshards = 8 if tier == "quick" else 16
    shards = [{"i": i, "units": [], "w": 0} for i in range(nshards)]
    for w, u in sorted(units, key=lambda x: (-x[0], x[1]["variant"], x[1]["prefix"])):
        tgt = min(shards, key=lambda s: (s["w"], s["i"]))
        tgt["units"].append(u)
        tgt["w"] += w
    return shards


def work(shard, seed, tier):
    from vp.core.env import quiet_ioflo
    quiet_ioflo()
    acc = Acc()
    seen_errnos = set()
    best = {}   # sig -> smallest failing case of this shard (reported first)
    for unit in shard["units"]:
        variant, n, prefix = unit["variant"], unit["n"], list(unit["prefix"])
        count = 0
        for rest in itertools.product(range(3), repeat=n - len(prefix)):
            q = prefix + list(rest)
            present = 0
            for d in q:
                present |= 1 << d
            for masks in mask_sequences(present):
                fails, nt, raised = run_case(variant, q, masks)
                seen_errnos.update(raised)
                count += 1
                if nt:
                    acc.nontrivial.add(_digest(variant, q, masks))
                for sig, what in fails:
                    acc.fail(sig, what, explain(variant, q, masks))
                    size = (len(q), len(masks), sum(masks))
                    if sig not in best or size < best[sig][0]:
                        best[sig] = (size, what, explain(variant, q, masks))
        acc.evaluations += count
        acc.classes[variant + "-len%d" % n] += count
        if len(acc.samples) < 2 and n >= 3:
            acc.samples.append(explain(variant, prefix + [1] * (n - len(prefix)), [1, 0]))
    for e in seen_errnos:
        acc.classes["errno-" + errno.errorcode.get(e, str(e)) + "-seen-in-shards"] += 1
    from vp.core.acc import Failure
    for sig, (size, what, case) in best.items():
        acc.failures[sig].insert(0, Failure(sig, "(smallest in shard) " + what, case))
        del acc.failures[sig][3:]
    acc.exhaustive = True
    acc.note("every queue of length 1..N over 3 destinations x every sequence of 0..3 per-pass fault sets (over the "
             "destinations present) enumerated for each variant; N per variant/tier is in the rule")
    return acc


def _digest(variant, q, masks):
    import hashlib
    key = ("%s|%s|%s" % (variant, "".join(map(str, q)), ",".join(map(str, masks)))).encode()
    return hashlib.blake2b(key, digest_size=8).digest()


def replay(case):
    from vp.core.env import quiet_ioflo
    quiet_ioflo()
    fails, _, _ = run_case(case["variant"], [int(d) for d in case["q"]], [int(m) for m in case["masks"]])
    return fails
