"""C46 PID controller output and integrator stay within configured limits
(ioflo/trim/interior/plain/controlling.py ControllerPid, aid/blending.blend0, aid/navigating.wrap2).

Generator (Hypothesis): a parameter set (wrap in {0, 180, pi, ...}, drsp, calcRate, gains, ordered
finite integrator and output limits) and a history of 2-30 steps; each step sets the input,
rate and set-point shares (finite floats, small ints, and with low probability inf / -inf / nan),
advances the store stamp by a lapse >= 0 (0 included) and calls `action()`; `restart()` steps
are interleaved. The controller is built on a fresh Store the way `Act.resolve` does it:
`ControllerPid(name, store)` then `._initio(ioinits)` with group/output/input/rate/rsp/parms,
then `restart()` (the builder's enter action).

Oracle, after every *evaluated* update (lapse > 0):
  * ovmin <= output <= ovmax and esmin <= errorSum <= esmax as boolean comparisons (NaN fails);
  * a set point differing from the stored prior set point by more than drsp becomes the new prior
    set point and the integrator restarts from zero *before* this step's accumulation; otherwise
    the prior set point is kept and the integrator continues (compared with the reference value);
  * with finite input/set point: error == input - setpoint when wrap == 0, else |error| <= wrap and
    (input - setpoint) - error is a whole number of 2*wrap (exact Fractions, tolerance 1e-9*wrap);
  * with everything finite: errorRate, errorSum and output equal an independent reference PID
    step (own trapezoid blend, own clamps) within 1e-9 relative tolerance; the reference continues
    from the controller's own (already validated) shares so that rounding never accumulates.
  Nothing is demanded of an update with lapse <= 0 (it is not evaluated).
"""
import math
from fractions import Fraction

from hypothesis import strategies as st

from vp.core.acc import Acc
from vp.core.hyp import campaign, Outcome, Budget

PROPERTY = "C46"
LEVEL = "exploration"
RULE = ("Hypothesis-generated histories: parameter set (wrap, drsp, calcRate, gains, ordered finite limits) + 2-30 steps of "
        "(input, rate, set point incl. inf/nan, lapse >= 0, optional restart) driven through ControllerPid.action on a fresh "
        "Store; oracle after every evaluated update = limit invariants (boolean, NaN fails), set-point-change reset, shortest "
        "wrapped error, and an independent reference PID step; non-trivial = history with an update whose raw integrator or "
        "output value was actually clamped, or with a non-finite input/rate/set point; distinct = (parameters, history)")
ASSUMPTIONS = [
    "limits are finite and ordered (esmin <= esmax, ovmin <= ovmax); gains, drsp >= 0, wrap >= 0 and lapses are finite; only "
    "input, rate and set point take non-finite values",
    "the controller is only required to hold the limits after an evaluated update (lapse > 0): its initial output 0.0 and the "
    "integrator value 0.0 after restart() may lie outside limits that exclude 0 until the next evaluated update",
    "'set point change' is measured against the stored prior set point share (group.prsp), as its docstring says; a NaN set "
    "point is no change",
    "integrator increment lapse*(e+pe)/2 * blend0(ae,0,3) * blend0(er,0,0.1), error-rate and output formulas are adopted from the "
    "tree for the reference comparison; the wrapped error is validated against the property and then adopted (either end "
    "of the half turn is accepted)",
]
META = {
    "level": "exploration",
    "text": "Thousands of generated parameter sets and update histories, including clamping, resets, zero lapses, restarts and "
            "non-finite sensor values, are checked step by step against invariants and an independent reference controller. "
            "Absence of a violation is shown only for the explored histories.",
    "note": "Trusts the 30-line harness reference controller; the controller is driven directly (constructor, _initio, restart, action), "
            "not through a running Skedder.",
    "technique": "Hypothesis-generated operation histories vs invariants + independent reference model, checked after every step",
    "design_ref": "DESIGN.md section 3, C46",
}


def _preload():
    """Import the ioflo modules under test once in the parent process (vp.cli imports this module after
    env.use_repo()), so that the forked shard workers do not each recompile ioflo (~1 s per shard)."""
    try:
        from vp.core import env
        env.use_repo()
        import ioflo.base.storing
        import ioflo.trim.interior.plain.controlling
    except Exception:       # the lazy imports inside the check functions report the real error
        pass


_preload()

TOL = 1e-9
TOLF = Fraction(1, 10 ** 9)
NONFINITE = {"nan": float("nan"), "inf": float("inf"), "-inf": float("-inf")}


def num(x):
    """decode a JSON-friendly number (non-finite values travel as strings)."""
    if isinstance(x, str):
        return NONFINITE[x]
    return x


def fin(*xs):
    return all(isinstance(x, (int, float)) and math.isfinite(x) for x in xs)


def same_float(a, b):
    if isinstance(a, float) and isinstance(b, float) and math.isnan(a) and math.isnan(b):
        return True
    return a == b


# ------------------------------------------------------------------------------- reference pieces
def ref_blend(d, u, s):
    """trapezoid: 1 inside radius u, linear down to 0 at u + s."""
    v = abs(d) - abs(u)
    s = abs(s)
    if v >= s:
        return 0.0
    if v <= 0.0:
        return 1.0
    return 1.0 - v / s


def ref_clamp(x, lo, hi):
    if x < lo:
        return lo
    if x > hi:
        return hi
    return x


def judge_error(inp, rsp_eff, wrap, e):
    """is e the shortest wrapped difference of inp - rsp_eff ? (all finite)"""
    diff = inp - rsp_eff
    if not fin(diff):
        return None         # difference overflowed: nothing to demand
    if not fin(e):
        return "error %r is not finite for finite input %r and set point %r" % (e, inp, rsp_eff)
    if wrap == 0:
        if e != diff:
            return "wrap 0 but error %r != input - setpoint = %r" % (e, diff)
        return None
    W, D, E = Fraction(wrap), Fraction(diff), Fraction(e)
    tol = TOLF * abs(W)
    if abs(E) > abs(W) + tol:
        return "error %r is longer than the half turn %r (input %r, set point %r)" % (e, wrap, inp, rsp_eff)
    full = 2 * W
    k = round((D - E) / full)
    if abs(D - E - k * full) > tol:
        return "error %r is not congruent to input - setpoint = %r modulo the full turn %r" % (e, diff, 2 * wrap)
    return None


# ------------------------------------------------------------------------------- system under test
GROUP = "ctl.pid.t"


def build(parms):
    from ioflo.base import storing
    from ioflo.aid.odicting import odict
    from ioflo.trim.interior.plain import controlling
    storing.Store.Clear()
    store = storing.Store(name="c46", stamp=0.0)
    c = controlling.ControllerPid(name="pidUnderTest", store=store)
    c._initio(odict(group=GROUP, output="goal.out", input="state.inp", rate="state.rate", rsp="goal.sp",
                    parms=dict(parms)))
    return store, c


_QUIET = [False]


def run_history(case):
    """Interpret the history. Returns (fails, info) with info = dict(nontrivial, classes)."""
    if not _QUIET[0]:
        from vp.core import env
        env.quiet_ioflo()
        _QUIET[0] = True
    from ioflo.base import storing
    P = {k: num(v) for k, v in case["parms"].items()}
    fails = []
    seen = set()
    cls = set()
    counts = {"evaluated": 0, "clamped": 0, "nonfinite": 0, "reset-informative": 0}

    def fail(sig, what, i):
        if sig not in seen:
            seen.add(sig)
            fails.append((sig, "step %d: %s [parms %r]" % (i, what, P)))

    try:
        store, c = build(P)
    except Exception as ex:
        return [("construct-raises-%s" % type(ex).__name__, "building ControllerPid with %r raised %r" % (P, ex))], \
            {"nontrivial": False, "classes": ["construct-failed"]}
    try:
        c.restart()
        # the set point the controller last worked with, followed by the harness itself: it changes at EVALUATED updates
        # only, so a change that is first seen by an update without time lapse is still a change at the next evaluated one
        ref_prsp = c.prsp.value
        for i, step in enumerate(case["steps"]):
            if step.get("restart"):
                c.restart()
                ref_prsp = c.prsp.value
                cls.add("restart-step")
            inp, rate, rsp, dt = num(step["inp"]), num(step["rate"]), num(step["rsp"]), step["dt"]
            c.input.value = inp
            c.rate.value = rate
            c.rsp.value = rsp
            store.advanceStamp(dt)
            # state before the update (all observable shares of the controller group)
            prsp0, pe, es0, out0 = ref_prsp, c.e.value, c.es.value, c.output.value
            if not same_float(c.prsp.value, ref_prsp):
                cls.add("setpoint-first-seen-by-zero-lapse-update")
            try:
                c.action()
            except Exception as ex:
                import traceback
                tb = traceback.extract_tb(ex.__traceback__)
                where = "%s:%s" % (tb[-1].filename.rsplit("/", 1)[-1], tb[-1].name) if tb else "?"
                fail("action-raises-%s@%s" % (type(ex).__name__, where),
                     "action() raised %r for input %r rate %r set point %r time step %r" % (ex, inp, rate, rsp, dt), i)
                break
            e, er, es, out, prsp1 = c.e.value, c.er.value, c.es.value, c.output.value, c.prsp.value
            lapse = c.lapse         # documented attribute: time lapse between updates (0 on the first update)
            if not (isinstance(lapse, (int, float)) and lapse > 0.0):
                cls.add("zero-lapse-step")      # not evaluated: nothing is demanded
                continue
            counts["evaluated"] += 1
            nonfinite = not fin(inp, rate, rsp)
            if nonfinite:
                counts["nonfinite"] += 1
                cls.add("nonfinite-" + "+".join(n for n, v in (("input", inp), ("rate", rate), ("setpoint", rsp)) if not fin(v)))
            # 1. limits (boolean comparisons: NaN fails)
            if not (P["ovmin"] <= out <= P["ovmax"]):
                fail("output-outside-limits" + ("-nonfinite-input" if nonfinite or not fin(pe, es0) else ""),
                     "output %r not within [%r, %r] after input %r rate %r set point %r lapse %r"
                     % (out, P["ovmin"], P["ovmax"], inp, rate, rsp, lapse), i)
            if not (P["esmin"] <= es <= P["esmax"]):
                fail("errorsum-outside-limits" + ("-nonfinite-input" if nonfinite or not fin(pe, es0) else ""),
                     "errorSum %r not within [%r, %r] after input %r rate %r set point %r lapse %r"
                     % (es, P["esmin"], P["esmax"], inp, rate, rsp, lapse), i)
            # 2. set point change -> new prior set point, integrator restarts
            changed = abs(rsp - prsp0) > P["drsp"]         # NaN -> False
            rsp_eff = rsp if changed else prsp0
            cls.add("setpoint-changed" if changed else "setpoint-kept")
            if not changed and rsp != prsp0:
                cls.add("setpoint-noise-below-drsp")
            ref_prsp = rsp_eff
            if not same_float(prsp1, rsp_eff):
                fail("prior-setpoint-wrong", "prior set point share is %r, expected %r (set point %r, prior %r, drsp %r)"
                     % (prsp1, rsp_eff, rsp, prsp0, P["drsp"]), i)
            # 3. error = shortest wrapped difference
            if fin(inp, rsp_eff):
                why = judge_error(inp, rsp_eff, P["wrap"], e)
                if why:
                    fail("error-not-shortest-wrapped-difference" if P["wrap"] else "error-not-difference", why, i)
                    continue
                if P["wrap"] and abs(inp - rsp_eff) > P["wrap"]:
                    cls.add("error-wrapped")
            # 4. reference step (everything finite)
            if not fin(inp, rsp_eff, pe, es0, e) or not (P["calcRate"] or fin(rate)):
                cls.add("reference-skipped-nonfinite-state")
                continue
            r_er = (e - pe) / lapse if P["calcRate"] else P["ger"] * rate
            ae = lapse * (e + pe) / 2.0
            inc = ae * ref_blend(ae, 0.0, 3.0) * ref_blend(r_er, 0.0, 0.1)
            base = 0.0 if changed else es0
            raw_es = base + inc
            if not fin(r_er, ae, inc, raw_es):
                cls.add("reference-skipped-overflow")
                continue
            r_es = ref_clamp(raw_es, P["esmin"], P["esmax"])
            terms = (P["gff"] * rsp_eff, P["gpe"] * e, P["gde"] * r_er, P["gie"] * r_es)
            raw_out = terms[0] + terms[1] + terms[2] + terms[3]
            if not fin(raw_out):
                cls.add("reference-skipped-overflow")
                continue
            r_out = ref_clamp(raw_out, P["ovmin"], P["ovmax"])
            if raw_es != r_es:
                counts["clamped"] += 1
                cls.add("integrator-clamped")
            if raw_out != r_out:
                counts["clamped"] += 1
                cls.add("output-clamped-" + ("high" if raw_out > r_out else "low"))
            if inc != 0.0:
                cls.add("integrator-accumulates")
            if changed and es0 != 0.0:
                cls.add("reset-with-nonzero-integrator")
                alt = ref_clamp(es0 + inc, P["esmin"], P["esmax"])
                if abs(alt - r_es) > TOL * (1 + abs(alt)):
                    counts["reset-informative"] += 1
            if not (fin(er) and abs(er - r_er) <= TOL * (1 + abs(r_er))):
                fail("error-rate-mismatch", "errorRate %r, reference %r (e %r, prior e %r, lapse %r, rate %r)"
                     % (er, r_er, e, pe, lapse, rate), i)
            if not (fin(es) and abs(es - r_es) <= TOL * (1 + abs(base) + abs(inc))):
                fail("integrator-not-reset-on-setpoint-change" if changed and es0 != 0.0 else "integrator-mismatch",
                     "errorSum %r, reference %r = clamp(%r + %r) (set point %s, prior errorSum %r)"
                     % (es, r_es, base, inc, "changed: integrator restarts from 0" if changed else "unchanged", es0), i)
                continue
            scale = 1 + sum(abs(t) for t in terms)
            if not (fin(out) and abs(out - r_out) <= TOL * scale):
                fail("output-mismatch", "output %r, reference %r = clamp(gff*rsp %r + gpe*e %r + gde*er %r + gie*es %r)"
                     % ((out, r_out) + terms), i)
    finally:
        storing.Store.Clear()
    if counts["evaluated"]:
        cls.add("has-evaluated-update")
    if counts["reset-informative"]:
        cls.add("reset-changes-integrator-value")
    cls.add("wrap-%s" % ("0" if not P["wrap"] else "on"))
    cls.add("calcRate" if P["calcRate"] else "rate-sensor")
    nt = counts["clamped"] > 0 or counts["nonfinite"] > 0
    return fails, {"nontrivial": nt, "classes": sorted(cls)}


# ------------------------------------------------------------------------------- strategy
def _strategy():
    small = st.sampled_from([0.0, 1.0, -1.0, 0.5, 2.0, 3.0, 8.0, -0.5, 0.1, 400.0])
    gain = st.one_of(small, st.floats(min_value=-10.0, max_value=10.0, allow_nan=False))
    lim = st.one_of(st.sampled_from([0.0, 5.0, 20.0, 1500.0, 1.0, 0.5]), st.floats(min_value=0.0, max_value=100.0, allow_nan=False))

    def limits(kind, a, b):
        if kind == 0:
            return (-a, a)                 # symmetric (the registered controllers)
        if kind == 1:
            return (0.0, a)                # one sided
        lo, hi = sorted((a - 50.0, b - 50.0))
        return (lo, hi)                    # anywhere, may exclude 0, may be equal
    limits_s = st.builds(limits, st.sampled_from([0, 0, 1, 2]), lim, lim)
    parms = st.builds(
        lambda wrap, drsp, calc, ger, gff, gpe, gde, gie, es, ov: dict(
            wrap=wrap, drsp=drsp, calcRate=calc, ger=ger, gff=gff, gpe=gpe, gde=gde, gie=gie,
            esmax=es[1], esmin=es[0], ovmax=ov[1], ovmin=ov[0]),
        st.sampled_from([0.0, 180.0, math.pi, 180, 0.0, 180.0, 0.5]),
        st.sampled_from([0.01, 0.01, 0.0, 0.5, 5.0]),
        st.booleans(), gain, gain, gain, gain, gain, limits_s, limits_s)
    nonfin = st.sampled_from(["nan", "inf", "-inf"])
    angle = st.one_of(st.floats(min_value=-400.0, max_value=400.0, allow_nan=False),
                      st.sampled_from([0.0, 45.0, 180.0, -180.0, 350.0, 10.0, 179.5, -179.5, 360.0, 22.5, 5.0, 2.0]),
                      st.integers(-400, 400))
    big = st.sampled_from([1e6, -1e6, 1e150, -1e150, 1e300, -1e300, 1e-300])

    def value(base, pn, pb):
        return st.one_of(*([base] * 30 + [nonfin] * pn + [big] * pb))
    setpoint = st.one_of(st.sampled_from([0.0, 45.0, 45.0, 45.005, 45.02, 10.0, 350.0, 5.0, 2.0, -90.0, 180.0]), angle)
    dt = st.one_of(st.sampled_from([0.125, 0.125, 0.125, 1.0, 0.5, 0.0, 0.0625]),
                   st.floats(min_value=0.001, max_value=10.0, allow_nan=False))
    step = st.fixed_dictionaries({
        "inp": value(angle, 1, 1), "rate": value(st.one_of(small, angle), 1, 1), "rsp": value(setpoint, 1, 1), "dt": dt,
        "restart": st.sampled_from([False] * 15 + [True]),
    })
    calm_step = st.fixed_dictionaries({          # near the set point: small errors so that the integrator accumulates
        "inp": st.floats(min_value=44.0, max_value=46.0, allow_nan=False), "rate": st.sampled_from([0.0, 0.01, -0.01, 0.05]),
        "rsp": st.sampled_from([45.0, 45.0, 45.0, 45.005, 45.5, 44.0]), "dt": st.sampled_from([0.125, 0.5, 1.0, 0.0]),
        "restart": st.just(False),
    })
    steps = st.one_of(st.lists(step, min_size=2, max_size=30), st.lists(st.one_of(calm_step, calm_step, step), min_size=3, max_size=30))
    return st.fixed_dictionaries({"parms": parms, "steps": steps})


def plan(tier):
    n = 8 if tier == "quick" else 16
    return [{"part": "rand", "i": i} for i in range(n)]


def work(shard, seed, tier):
    acc = Acc()
    n = 250 if tier == "quick" else 4000

    def execute(case):
        fails, info = run_history(case)
        return Outcome(fails, nontrivial=info["nontrivial"], classes=info["classes"] + ["steps-%02d+" % (len(case["steps"]) // 10 * 10)],
                       key=repr((sorted(case["parms"].items()), case["steps"])),
                       sample={"parms": case["parms"], "steps": case["steps"][:3], "n_steps": len(case["steps"])})

    campaign(acc, _strategy(), execute, n, seed * 1000 + shard["i"], budget=Budget(120 if tier == "quick" else 900))
    return acc


def replay(case):
    return run_history(case)[0]
