"""C40 bit / byte / hex codecs of ioflo.aid.byting round-trip.

Generator
* exh   : every bit-field format (composition of the total width into field widths >= 1) of total
          width 1..10 with every combination of in-range field values (all 2**w bit patterns);
          thorough additionally widths 11 and 12.
* bound : every format of total width 11..16 with boundary patterns (all zero, all ones, both
          alternating patterns, top bit only, low bit only; thorough: every one-hot pattern).
* rand  : Hypothesis: formats of up to 8 fields / 64 bits, field values inside, at and beyond the
          field width, truthy non-boolean values for 1-bit fields, explicit sizes (too small,
          minimal, larger), offsets, pre-filled target buffers, raw byte strings, reverse, boolean.
* conv  : bytify/unbytify, hexify/unhexify, hexize/unhexize, binize/unbinize, signExtend: small
          domains exhaustively, wide values through Hypothesis.

Oracle: an independent harness model (MSB-first shift-accumulate + int.to_bytes / int.from_bytes /
bytes.hex / bytes.fromhex / format(n, 'b')): packed bytes, unpacked fields (masked values, padding
field, booleans), the untouched bytes around a packifyInto target, mirror images for reverse, mutual
inverses of the conversions, two's complement for signExtend.
"""
import string

from hypothesis import strategies as st

from vp.core.acc import Acc
from vp.core.hyp import campaign, Outcome, Budget

PROPERTY = "C40"
LEVEL = "exploration"
RULE = ("pack/unpack: all formats (compositions into widths >= 1) of total width 1..10 (thorough ..12) with all "
        "2**w in-range value patterns, all formats of width 11..16 with boundary patterns, Hypothesis formats up to "
        "8 fields / 64 bits with over-wide values, sizes, offsets, buffers, reverse, boolean; conversions: small "
        "integers / all byte strings of length <= 1 (thorough <= 2) / all bit strings and sign extensions up to 12 "
        "bits exhaustively plus Hypothesis wide values; oracle = independent harness model; non-trivial = (pack) "
        ">= 2 fields and total width not a multiple of 8, (conversions) multi-byte / negative / truncated integer, "
        "hex text with odd length or separators, binary text with leading zero, sign bit set; distinct = distinct "
        "(function family, format, values, options)")
ASSUMPTIONS = [
    "field values are unsigned (docstring 'Assumes unsigned fields values'); 1-bit fields pack truthiness, wider "
    "fields pack the low-order bits; unpackify appends the padding bits as one extra field (False/True for a 1-bit "
    "padding field when boolean=True, as in test_byting)",
    "unpackify is only given at least `size` bytes (the docstring announces an exception for shorter input but "
    "none is raised; not part of the property)",
    "a size smaller than the format needs must raise ValueError in packify, packifyInto and unpackify",
    "bytify: n >= 0 and not strict -> at least `size` bytes, longer when needed; strict or n < 0 -> exactly `size` "
    "low-order bytes (two's complement); binize/unbinize on 0 <= n < 2**size; signExtend on 0 <= x < 2**n, n >= 1",
    "unhexify/unhexize delete every character outside string.hexdigits and left-pad odd lengths with '0' (docstrings)",
    "the 'formal proof' mentioned in the property's quantifier is outside this technique family and not attempted",
]
META = {
    "level": "exploration",
    "text": "All small formats are enumerated with all values (every bit position of every field layout up to 10 "
            "bits, 12 in the thorough tier), wider formats with boundary patterns and random values, and every "
            "result is compared with an independent model, so mask/shift/byte-order errors in any field position "
            "show up. The functions are pure and bitwise uniform; still only the explored inputs are covered.",
    "note": "Trusts the harness model (shift-accumulate, int.to_bytes/from_bytes, bytes.hex/fromhex, format). "
            "No formal proof is attempted.",
    "technique": "bounded-exhaustive enumeration + Hypothesis random inputs vs independent reference model (differential + round trip)",
    "design_ref": "DESIGN.md section 3, C40",
}

_B = {}


def byting():
    if not _B:
        from ioflo.aid import byting as b
        _B["m"] = b
    return _B["m"]


# --------------------------------------------------------------------------------- pack / unpack
def model_pack(widths, fields, sz):
    acc = 0
    tb = 0
    for w, v in zip(widths, fields):
        bits = (1 if v else 0) if w == 1 else (v & ((1 << w) - 1))
        acc = (acc << w) | bits
        tb += w
    acc <<= (8 * sz - tb)
    return acc.to_bytes(sz, "big")


def model_unpack(widths, data, sz, boolean):
    """data: exactly the sz bytes that are decoded (already mirrored if reverse)."""
    n = int.from_bytes(data, "big")
    left = 8 * sz
    out = []
    ws = list(widths)
    pad = left - sum(ws)
    if pad:
        ws.append(pad)
    for w in ws:
        left -= w
        v = (n >> left) & ((1 << w) - 1)
        out.append(bool(v) if (boolean and w == 1) else v)
    return tuple(out)


def same_fields(got, exp):
    return (isinstance(got, tuple) and len(got) == len(exp) and
            all(g == e and (type(g) is bool) == (type(e) is bool) for g, e in zip(got, exp)))


def check_pack(case):
    """case: fmt, fields, [size], [offset], [buf], [raw].  All option combinations reverse x boolean are run."""
    B = byting()
    fmt = case["fmt"]
    fields = case["fields"]
    size = case.get("size")
    offset = case.get("offset", 0)
    buf = bytes(case.get("buf", b""))
    raw = case.get("raw")
    widths = [int(x) for x in fmt.split()]
    tb = sum(widths)
    minsize = (tb + 7) // 8
    sz = minsize if size is None else size
    fails = []

    def call(name, f):
        try:
            return True, f()
        except Exception as ex:
            return False, ex

    if sz < minsize:   # documented: exception when the format does not fit
        for name, f in (("packify", lambda: B.packify(fmt, fields, size=size)),
                        ("packifyInto", lambda: B.packifyInto(bytearray(buf), fmt, fields, size=size, offset=offset)),
                        ("unpackify", lambda: B.unpackify(fmt, bytearray(minsize), size=size))):
            ok, res = call(name, f)
            if ok:
                fails.append(("%s-no-ValueError-size-too-small" % name,
                              "%s(%r, size=%r) returned %r, the format needs %d bytes" % (name, fmt, size, res, minsize)))
            elif not isinstance(res, ValueError):
                fails.append(("%s-raises-%s" % (name, type(res).__name__), "%s(%r, size=%r) raised %r" % (name, fmt, size, res)))
        return fails

    # boolean=True only changes 1-bit fields (incl. a 1-bit padding field): the enumerations skip the identical
    # second decode for formats without any ("lean"); random cases always run both
    bools = (False,) if (case.get("lean") and 1 not in widths and 8 * sz - tb != 1) else (False, True)
    exp = model_pack(widths, fields, sz)
    masked = model_unpack(widths, exp, sz, False)
    for reverse in (False, True):
        wire = exp[::-1] if reverse else exp
        kw = {"reverse": True} if reverse else {}
        if size is not None:
            kw["size"] = size
        ok, res = call("packify", lambda: B.packify(fmt, fields, **kw))
        if not ok:
            fails.append(("packify-raises-%s" % type(res).__name__, "packify(%r, %r, %r) raised %r" % (fmt, fields, kw, res)))
        elif not (isinstance(res, bytearray) and bytes(res) == wire):
            fails.append(("packify-reverse-bytes" if reverse else "packify-bytes",
                          "packify(%r, %r, %r) = %r, model %r" % (fmt, fields, kw, res, wire)))
        # packifyInto
        b = bytearray(buf)
        e = bytearray(buf)
        if len(e) < offset + sz:
            e.extend(bytes(offset + sz - len(e)))
        e[offset:offset + sz] = wire
        ok, res = call("packifyInto", lambda: B.packifyInto(b, fmt, fields, offset=offset, **kw))
        if not ok:
            fails.append(("packifyInto-raises-%s" % type(res).__name__,
                          "packifyInto(%r, %r, %r, offset=%d, %r) raised %r" % (buf, fmt, fields, offset, kw, res)))
        else:
            if res != sz:
                fails.append(("packifyInto-return", "packifyInto(..., %r, %r, offset=%d, %r) returned %r, packed size is %d"
                              % (fmt, fields, offset, kw, res, sz)))
            if b != e:
                where = "target" if (b[:offset] == e[:offset] and b[offset + sz:] == e[offset + sz:]) else "outside-target"
                fails.append(("packifyInto-%s-bytes" % where,
                              "packifyInto(%r, %r, %r, offset=%d, %r) left %r, model %r" % (buf, fmt, fields, offset, kw, b, e)))
        # unpackify of the packed bytes (round trip) and of raw bytes
        sources = [("roundtrip", wire)]
        if raw is not None:
            sources.append(("raw", bytes(raw)))
        for label, data in sources:
            mirrored = data[::-1] if reverse else data
            for boolean in bools:
                expf = model_unpack(widths, mirrored[:sz], sz, boolean)
                if label == "roundtrip" and not boolean and expf != masked:
                    raise AssertionError("harness model inconsistent")
                ukw = dict(kw)
                if boolean:
                    ukw["boolean"] = True
                for arg in ((bytearray(data), bytes(data), list(data)) if label == "raw" and not boolean else (bytearray(data),)):
                    ok, res = call("unpackify", lambda: B.unpackify(fmt, arg, **ukw))
                    if not ok:
                        fails.append(("unpackify-raises-%s" % type(res).__name__,
                                      "unpackify(%r, %r, %r) raised %r" % (fmt, data, ukw, res)))
                    elif not same_fields(res, expf):
                        sig = "unpackify%s%s-fields" % ("-reverse" if reverse else "", "-boolean" if boolean else "")
                        fails.append((sig, "unpackify(%r, %r, %r) = %r, model %r (%s)" % (fmt, data, ukw, res, expf, label)))
                    elif bytes(arg) != bytes(data):
                        # the caller's buffer still holds the packed bytes: unpacking it again gives the same fields
                        fails.append(("unpackify%s-changed-its-input" % ("-reverse" if reverse else ""),
                                      "unpackify(%r, %s(%r), %r) left its argument as %r: a second unpack of the same buffer gives other fields"
                                      % (fmt, type(arg).__name__, data, ukw, bytes(arg))))
    return _dedupe(fails)


def _dedupe(fails):
    seen = set()
    out = []
    for sig, what in fails:
        if sig not in seen:
            seen.add(sig)
            out.append((sig, what))
    return out


# --------------------------------------------------------------------------------- conversions
def clean_hex(h):
    h = "".join(c for c in h if c in string.hexdigits)
    if len(h) % 2:
        h = "0" + h
    return h


def check_conv(case):
    B = byting()
    f = case["f"]
    fails = []

    def bad(sig, what):
        fails.append((sig, what))

    if f not in ("bytify", "unbytify", "hex", "unhex", "bin", "unbin", "sign"):
        raise ValueError("unknown conversion case %r" % (case,))
    try:
        if f == "bytify":
            n, size, reverse, strict = case["n"], case["size"], case["reverse"], case["strict"]
            if n < 0 or strict:
                val = n & ((1 << (8 * size)) - 1)
                length = size
            else:
                val = n
                length = max(size, (n.bit_length() + 7) // 8)
            exp = val.to_bytes(length, "little" if reverse else "big")
            got = B.bytify(n, size, reverse=reverse, strict=strict)
            if not (isinstance(got, bytearray) and bytes(got) == exp):
                bad("bytify-bytes", "bytify(%d, %d, reverse=%r, strict=%r) = %r, model %r" % (n, size, reverse, strict, got, exp))
            for arg in (bytearray(exp), exp, list(exp)):
                back = B.unbytify(arg, reverse=reverse)
                if back != val or type(back) is not int:
                    bad("unbytify-of-bytify", "unbytify(%r, reverse=%r) = %r, expected %d (from bytify(%d, %d, strict=%r))"
                        % (arg, reverse, back, val, n, size, strict))
        elif f == "unbytify":
            data, reverse = bytes(case["b"]), case["reverse"]
            exp = int.from_bytes(data, "little" if reverse else "big")
            got = B.unbytify(bytearray(data), reverse=reverse)
            if got != exp:
                bad("unbytify-int", "unbytify(%r, reverse=%r) = %r, model %d" % (data, reverse, got, exp))
            back = B.bytify(exp, len(data), reverse=reverse)
            if bytes(back) != data:
                bad("bytify-of-unbytify", "bytify(unbytify(b), len(b), reverse=%r) = %r for b = %r" % (reverse, back, data))
        elif f == "hex":
            data = bytes(case["b"])
            exp = data.hex()
            got = B.hexify(bytearray(data))
            got2 = B.hexify(data)
            if got != exp or got2 != exp or not isinstance(got, str):
                bad("hexify-text", "hexify(%r) = %r / %r, model %r" % (data, got, got2, exp))
            got = B.hexize(data)
            if got != exp or not isinstance(got, str):
                bad("hexize-text", "hexize(%r) = %r, model %r" % (data, got, exp))
            back = B.unhexify(exp)
            if not (isinstance(back, bytearray) and bytes(back) == data):
                bad("unhexify-of-hexify", "unhexify(hexify(%r)) = %r" % (data, back))
            back = B.unhexize(exp)
            if not (isinstance(back, bytes) and back == data):
                bad("unhexize-of-hexize", "unhexize(hexize(%r)) = %r" % (data, back))
        elif f == "unhex":
            h = case["h"]
            c = clean_hex(h)
            exp = bytes.fromhex(c)
            got = B.unhexify(h)
            if not (isinstance(got, bytearray) and bytes(got) == exp):
                bad("unhexify-bytes", "unhexify(%r) = %r, model %r" % (h, got, exp))
            got2 = B.unhexize(h)
            if not (isinstance(got2, bytes) and got2 == exp):
                bad("unhexize-bytes", "unhexize(%r) = %r, model %r" % (h, got2, exp))
            if B.hexify(got) != c.lower():
                bad("hexify-of-unhexify", "hexify(unhexify(%r)) = %r, expected %r" % (h, B.hexify(got), c.lower()))
            if B.hexize(got2) != c.lower():
                bad("hexize-of-unhexize", "hexize(unhexize(%r)) = %r, expected %r" % (h, B.hexize(got2), c.lower()))
        elif f == "bin":
            n, size = case["n"], case["size"]
            exp = format(n, "b").zfill(size) if size else ""
            got = B.binize(n, size)
            if got != exp or not isinstance(got, str):
                bad("binize-text", "binize(%d, %d) = %r, model %r" % (n, size, got, exp))
            back = B.unbinize(exp)
            if back != n:
                bad("unbinize-of-binize", "unbinize(%r) = %r, expected %d" % (exp, back, n))
        elif f == "unbin":
            u = case["u"]
            exp = int(u, 2) if u else 0
            got = B.unbinize(u)
            if got != exp:
                bad("unbinize-int", "unbinize(%r) = %r, model %d" % (u, got, exp))
            back = B.binize(got, len(u))
            if back != u:
                bad("binize-of-unbinize", "binize(unbinize(%r), %d) = %r" % (u, len(u), back))
        elif f == "sign":
            x, n = case["x"], case["n"]
            exp = x - (1 << n) if x >= (1 << (n - 1)) else x
            got = B.signExtend(x, n)
            if got != exp:
                bad("signExtend-value", "signExtend(%d, %d) = %r, two's complement value %d" % (x, n, got, exp))
    except Exception as ex:
        bad("%s-raises-%s" % (f, type(ex).__name__), "%r raised %r" % (case, ex))
    return fails


def conv_nontrivial(case):
    f = case["f"]
    if f == "bytify":
        n, size = case["n"], case["size"]
        return n < 0 or n > 255 or (case["strict"] and n.bit_length() > 8 * size)
    if f == "unbytify":
        return len(case["b"]) >= 2
    if f == "hex":
        return len(case["b"]) >= 2
    if f == "unhex":
        h = case["h"]
        return any(c not in string.hexdigits for c in h) or len(clean_hex(h)) != len(h)
    if f == "bin":
        return case["size"] >= 2 and case["n"] < (1 << (case["size"] - 1))
    if f == "unbin":
        return len(case["u"]) >= 2 and case["u"][0] == "0"
    if f == "sign":
        return case["n"] >= 2 and case["x"] >= (1 << (case["n"] - 1))
    return False


# --------------------------------------------------------------------------------- enumeration helpers
def compositions(w):
    """All ordered ways to write w as a sum of parts >= 1 (2**(w-1) of them), deterministic order."""
    for mask in range(1 << (w - 1)):
        parts = []
        run = 1
        for i in range(w - 1):
            if (mask >> i) & 1:
                parts.append(run)
                run = 1
            else:
                run += 1
        parts.append(run)
        yield parts


def split_pattern(widths, pattern, w):
    out = []
    left = w
    for x in widths:
        left -= x
        out.append((pattern >> left) & ((1 << x) - 1))
    return out


def boundary_patterns(w, tier):
    ones = (1 << w) - 1
    alt = int(("10" * w)[:w], 2)
    pats = [0, ones, alt, ones ^ alt, 1 << (w - 1), 1]
    if tier != "quick":
        pats += [1 << i for i in range(1, w - 1)]
    return pats


BUF = bytes([0xA5, 0x5A, 0xC3, 0x3C, 0xFF, 0x00, 0x81])


def run_formats(acc, formats, tier, patterns_of, label):
    """formats: list of (w, widths). Every (format, pattern) is one case.

    Patterns with pattern % 8 in (1, 2, 3) go through the complete check_pack (packifyInto with offset / pre-filled
    buffer / larger size, raw input in three argument types, boolean decode); the others through an equivalent
    lean comparison of packify / unpackify in both byte orders, and through check_pack too when that disagrees.
    """
    B = byting()
    packify, unpackify = B.packify, B.unpackify
    for w, widths in formats:
        fmt = " ".join(str(x) for x in widths)
        nt = len(widths) >= 2 and w % 8 != 0
        cls = ["pack/%s" % label, "pack/fields=%s" % (len(widths) if len(widths) < 4 else "4+"),
               "pack/aligned" if w % 8 == 0 else "pack/unaligned"]
        sz = (w + 7) // 8
        pad = 8 * sz - w
        shifts = []
        left = w
        for x in widths:
            left -= x
            shifts.append((left, (1 << x) - 1))
        for pattern in patterns_of(w):
            fields = [(pattern >> sh) & mk for sh, mk in shifts]
            case = {"fmt": fmt, "fields": fields, "lean": True}
            sel = pattern % 8
            if sel == 1:
                case["offset"] = 2
                case["buf"] = BUF
            elif sel == 2:
                case["offset"] = 1
                case["buf"] = BUF[:1]
                case["size"] = sz + 1
            elif sel == 3:
                case["raw"] = BUF
            else:
                sel = 0
            fails = None
            if sel == 0:
                wire = (pattern << pad).to_bytes(sz, "big")
                eriw = wire[::-1]
                expf = tuple(fields) + ((0,) if pad else ())
                try:
                    ok = (packify(fmt, fields) == wire and packify(fmt, fields, reverse=True) == eriw and
                          unpackify(fmt, bytearray(wire)) == expf and
                          unpackify(fmt, bytearray(eriw), reverse=True) == expf)
                except Exception:
                    ok = False
                if ok:
                    fails = ()
            if fails is None:
                fails = check_pack(case)
                if sel == 0 and not fails:
                    fails = [("lean-path-disagrees", "lean comparison failed but check_pack passed for %r" % (case,))]
            acc.case(key=("%s|%d" % (fmt, pattern)).encode(), nontrivial=nt, classes=cls,
                     sample=case if (pattern == 5 and w in (6, 10, 13)) else None)
            for sig, what in fails:
                acc.fail(sig, what, dict(case, t="pack"))


def all_formats(wmin, wmax):
    out = []
    for w in range(wmin, wmax + 1):
        for widths in compositions(w):
            out.append((w, widths))
    return out


# --------------------------------------------------------------------------------- random strategies
def pack_strategy():
    def value(w):
        ones = (1 << w) - 1
        if w == 1:
            return st.one_of(st.booleans(), st.integers(0, 3), st.sampled_from([0, 1, 2, 255]))
        return st.one_of(st.integers(0, ones), st.integers(0, (1 << (w + 9)) - 1),
                         st.sampled_from([0, ones, ones + 1, 1 << (w - 1), (1 << w) | 1]))

    def build(draw):
        widths = []
        total = 0
        for w in draw(st.lists(st.one_of(st.integers(1, 9), st.integers(1, 33)), min_size=1, max_size=8)):
            if total + w > 64:
                break
            widths.append(w)
            total += w
        fields = [draw(value(w)) for w in widths]
        sep = draw(st.sampled_from([" ", " ", " ", "  ", "\t"]))
        case = {"t": "pack", "fmt": sep.join(str(w) for w in widths), "fields": fields}
        minsize = (total + 7) // 8
        how = draw(st.sampled_from(["none", "none", "min", "more", "more", "small"]))
        if how == "min":
            case["size"] = minsize
        elif how == "more":
            case["size"] = minsize + draw(st.integers(1, 3))
        elif how == "small":
            case["size"] = minsize - 1   # >= 0 because total >= 1
        sz = case.get("size", minsize)
        if draw(st.booleans()):
            case["offset"] = draw(st.integers(0, 5))
            case["buf"] = draw(st.binary(max_size=14))
        if draw(st.booleans()):
            case["raw"] = draw(st.binary(min_size=max(sz, minsize), max_size=max(sz, minsize) + 3))
        return case

    return st.composite(build)()


def conv_strategy():
    big = st.one_of(st.integers(0, 1 << 16), st.integers(0, 1 << 70), st.integers(-(1 << 40), -1),
                    st.builds(lambda k, d: (1 << k) + d, st.integers(0, 72), st.integers(-2, 2)))
    hexchars = "0123456789abcdefABCDEF"
    noise = " :.-_xgGzZ\n"
    return st.one_of(
        st.builds(lambda n, s, r, x: {"t": "conv", "f": "bytify", "n": n, "size": s, "reverse": r, "strict": x},
                  big, st.integers(0, 10), st.booleans(), st.booleans()),
        st.builds(lambda b, r: {"t": "conv", "f": "unbytify", "b": b, "reverse": r}, st.binary(max_size=12), st.booleans()),
        st.builds(lambda b: {"t": "conv", "f": "hex", "b": b}, st.binary(min_size=2, max_size=48)),
        st.builds(lambda h: {"t": "conv", "f": "unhex", "h": h}, st.text(hexchars, max_size=40)),
        st.builds(lambda h: {"t": "conv", "f": "unhex", "h": h}, st.text(hexchars + noise, max_size=40)),
        st.builds(lambda s, d: {"t": "conv", "f": "bin", "n": d % (1 << s) if s else 0, "size": s},
                  st.integers(0, 80), st.integers(0, 1 << 80)),
        st.builds(lambda u: {"t": "conv", "f": "unbin", "u": u}, st.text("01", max_size=80)),
        st.builds(lambda n, d: {"t": "conv", "f": "sign", "n": n, "x": d % (1 << n)}, st.integers(1, 80), st.integers(0, 1 << 80)),
    )


def execute(case):
    if case["t"] == "pack":
        fails = check_pack(case)
        widths = [int(x) for x in case["fmt"].split()]
        tb = sum(widths)
        nt = len(widths) >= 2 and tb % 8 != 0
        size = case.get("size")
        cls = ["pack/random", "pack/fields=%s" % (len(widths) if len(widths) < 4 else "4+"),
               "pack/aligned" if tb % 8 == 0 else "pack/unaligned",
               "pack/width<=16" if tb <= 16 else ("pack/width<=32" if tb <= 32 else "pack/width<=64"),
               "pack/size=" + ("default" if size is None else ("too-small" if size < (tb + 7) // 8 else
                                                                 ("minimal" if size == (tb + 7) // 8 else "larger")))]
        if any(((1 if v else 0) if w == 1 else v & ((1 << w) - 1)) != v for w, v in zip(widths, case["fields"])):
            cls.append("pack/over-wide-or-truthy-value")
        if "raw" in case:
            cls.append("pack/raw-bytes")
        if "buf" in case:
            cls.append("pack/into-buffer")
        return Outcome(fails, nontrivial=nt, classes=cls, key=case, sample=case)
    fails = check_conv(case)
    return Outcome(fails, nontrivial=conv_nontrivial(case), classes=["conv/%s" % case["f"], "conv/random"], key=case, sample=case)


# --------------------------------------------------------------------------------- plan / work / replay
def plan(tier):
    q = tier == "quick"
    n = 6 if q else 16
    shards = [{"part": "exh", "i": i, "n": n, "wmin": 1, "wmax": 10} for i in range(n)]
    if not q:
        shards += [{"part": "exh", "i": i, "n": 48, "wmin": 11, "wmax": 12} for i in range(48)]
    nb = 6 if q else 16
    shards += [{"part": "bound", "i": i, "n": nb} for i in range(nb)]
    shards += [{"part": "conv"}]
    nr = 3 if q else 16
    shards += [{"part": "rand", "i": i} for i in range(nr)]
    return shards


def work(shard, seed, tier):
    acc = Acc()
    byting()
    part = shard["part"]
    if part == "exh":
        fm = all_formats(shard["wmin"], shard["wmax"])
        # heaviest (widest) formats first inside every shard does not matter; interleave for balance
        mine = fm[shard["i"]::shard["n"]]
        run_formats(acc, mine, tier, lambda w: range(1 << w), "exhaustive-values")
        acc.exhaustive = True
        acc.note("every format of total width %d..%d x every in-range value pattern enumerated"
                 % (shard["wmin"], shard["wmax"]))
        return acc
    if part == "bound":
        fm = all_formats(11, 16)
        mine = fm[shard["i"]::shard["n"]]
        run_formats(acc, mine, tier, lambda w: boundary_patterns(w, tier), "boundary-values")
        acc.note("every format of total width 11..16 x boundary patterns (%s)"
                 % ("0, ones, 2 alternating, top bit, low bit" if tier == "quick" else "0, ones, 2 alternating, every one-hot"))
        return acc
    if part == "conv":
        q = tier == "quick"

        def one(case, sample=False):
            fails = check_conv(case)
            acc.case(key=repr(sorted(case.items())).encode(), nontrivial=conv_nontrivial(case),
                     classes=["conv/%s" % case["f"], "conv/exhaustive"], sample=dict(case, t="conv") if sample else None)
            for sig, what in fails:
                acc.fail(sig, what, dict(case, t="conv"))

        top = 1100 if q else 70000
        ns = list(range(-300, top))
        for k in (16, 24, 32, 64):
            ns += [(1 << k) + d for d in (-2, -1, 0, 1, 2)] + [-(1 << k) + d for d in (-1, 0, 1)]
        for n in ns:
            for size in (0, 1, 2, 3):
                for reverse in (False, True):
                    for strict in (False, True):
                        one({"f": "bytify", "n": n, "size": size, "reverse": reverse, "strict": strict},
                            sample=(n == -2 and size == 2 and not reverse and not strict))
        datas = [b""] + [bytes([a]) for a in range(256)]
        datas += [bytes([a, b]) for a in range(0, 256, 1 if not q else 5) for b in range(0, 256, 1 if not q else 3)]
        for d in datas:
            one({"f": "hex", "b": d})
            one({"f": "unbytify", "b": d, "reverse": False})
            one({"f": "unbytify", "b": d, "reverse": True})
            one({"f": "unhex", "h": d.hex().upper()})
            one({"f": "unhex", "h": d.hex()[1:]}, sample=(d == b"\x0a\xbc"))
        for size in range(0, 13):
            for n in range(1 << size):
                one({"f": "bin", "n": n, "size": size})
                one({"f": "unbin", "u": format(n, "b").zfill(size) if size else ""})
        for n in range(1, 13 if q else 17):
            for x in range(1 << n):
                one({"f": "sign", "x": x, "n": n}, sample=(n == 5 and x == 0x15))
        acc.exhaustive = True
        acc.note("conversions: integers -300..%d and around 2**16/24/32/64 x sizes 0..3 x reverse x strict; byte strings "
                 "of length <= 1 and %s of length 2; all bit strings and sign extensions of width <= 12%s"
                 % (top - 1, "a grid" if q else "all", "" if q else " (sign extension <= 16)"))
        return acc
    n = 2500 if tier == "quick" else 30000
    strat = st.one_of(pack_strategy(), pack_strategy(), conv_strategy())
    campaign(acc, strat, execute, n, seed * 1000 + shard["i"], budget=Budget(100 if tier == "quick" else 1500),
             max_sigs=6, shrink_examples=300)
    return acc


def replay(case):
    case = dict(case)
    t = case.get("t", "pack")
    if t == "pack":
        return check_pack(case)
    return check_conv(case)
