"""C21 Comparison conditions evaluate exactly the written comparison.

Generator: (1) the full table of single clauses: six operators x optional `not` x state value
in {int, float, negative, zero, string, bool} x goal direct or taken from another share x
tolerance {none, 0, 0.5, -0.5} x goal on / just below / just above the state; the same on the
framer clocks `elapsed` / `recurred` (bare spelling and `elapsed re`, `elapsed re me`, `elapsed re <own framer>`,
goal direct or from a share, with and without tolerance); bare `if state` truthiness. (2) Hypothesis conjunctions
of 1-3 clauses joined with `and`. Ordering operators are only generated between mutually
orderable values (number-number, string-string).
Each clause becomes `go b if <clause>` in its own framer (many framers per script to amortise
the build); the observed outcome is whether the transition is taken at the first evaluation
(tick 1). Oracle: direct Python evaluation of the written comparison.
"""
import itertools

from hypothesis import strategies as st

from vp.core.acc import Acc
from vp.core.hyp import campaign, Outcome
from vp.flo import ast as A
from vp.flo.run import run_real
from vp.flo.engine import all_events
from vp.flo import clonegrid as CG

PROPERTY = "C21"
LEVEL = "exploration"

OPS = ["==", "!=", "<", "<=", ">=", ">"]
NUMS = [0, 1, -2, 2.5, -0.5]
DELTAS = [0, -1, 1, -0.5, 0.5, -0.25, 0.25]
TOLS = [None, 0, 0.5, -0.5]
P = "0.125"


def truth(clause, vals):
    """vals: path -> value; clocks: elapsed/recurred at first evaluation"""
    k = clause["kind"]
    if k == "bool":
        r = bool(vals[clause["state"]])
    else:
        if k == "cmp":
            state = vals[clause["state"]]
            if isinstance(state, dict):
                state = state[clause.get("sfield") or "value"]
            goal = clause["goal"]
            if isinstance(goal, dict):
                gv = vals[goal["path"]]
                goal = gv[goal.get("field") or "value"] if isinstance(gv, dict) else gv
        else:
            state = 0.125 if k == "elapsed" else 1
            goal = clause["goal"]
            if isinstance(goal, dict):
                gv = vals[goal["path"]]
                goal = gv[goal.get("field") or "value"] if isinstance(gv, dict) else gv
        op = clause["op"]
        tol = clause.get("tol")
        num = lambda x: isinstance(x, (int, float)) and not isinstance(x, bool)
        if op in ("==", "!="):
            if num(state) and num(goal):
                t = abs(tol) if tol is not None else 0
                r = (goal - t) <= state <= (goal + t)
            else:
                r = (state == goal)
            if op == "!=":
                r = not r
        elif op == "<":
            r = state < goal
        elif op == "<=":
            r = state <= goal
        elif op == ">=":
            r = state >= goal
        else:
            r = state > goal
    return (not r) if clause.get("neg") else bool(r)


DECIMAL_AMBIGUOUS = set()


def single_clauses():
    """the table of single clauses: list of (clause, vals)"""
    out = []
    for s in NUMS:
        for d in DELTAS:
            g = s + d
            for op in OPS:
                for neg in (False, True):
                    # a tolerance written on an ordering operator does not widen it ("the ordering operators compare
                    # state with goal"): goals within |tol| of the state, on either side
                    tols = TOLS if op in ("==", "!=") else ([None, 0.5, -0.5] if abs(d) <= 0.5 and not neg else [None])
                    for tol in tols:
                        for indirect in (False, True):
                            c = {"kind": "cmp", "state": ".q.s", "op": op, "neg": neg, "tol": tol,
                                 "goal": {"path": ".q.g"} if indirect else g}
                            out.append((c, {".q.s": s, ".q.g": g}))
    for s, g in itertools.product(["", "a", "b"], repeat=2):
        for op in OPS:
            for neg in (False, True):
                for indirect in (False, True):
                    c = {"kind": "cmp", "state": ".q.s", "op": op, "neg": neg, "tol": None,
                         "goal": {"path": ".q.g"} if indirect else g}
                    out.append((c, {".q.s": s, ".q.g": g}))
                    if not indirect:      # the same goal written with single quotes
                        out.append((dict(c, squote=True), {".q.s": s, ".q.g": g}))
    # equality between different kinds (never ordered): string vs number, with and without tolerance
    for s, g in (("a", 1), (1, "a"), (True, True), (True, False), (False, False), ("", 0)):
        for op in ("==", "!="):
            for neg in (False, True):
                for tol in ((None, 0.5) if not isinstance(s, bool) and not isinstance(g, bool) else (None,)):
                    for indirect in ((False, True) if not isinstance(g, str) or g else (True,)):
                        c = {"kind": "cmp", "state": ".q.s", "op": op, "neg": neg, "tol": tol,
                             "goal": {"path": ".q.g"} if indirect else g}
                        out.append((c, {".q.s": s, ".q.g": g}))
    for v in (0, 1, -1, 0.0, 0.5, "", "a", True, False, None):
        for neg in (False, True):
            out.append(({"kind": "bool", "state": ".q.s", "neg": neg}, {".q.s": v, ".q.g": 0}))
    # decimal (not binary-exact) values on and next to the edge of the tolerance band. The band test is stated as
    # goal-|tol| <= state <= goal+|tol|; only triples for which that formula gives the same verdict in float
    # arithmetic as in exact arithmetic on the written decimals are used (so the expected verdict does not depend
    # on how one reads the statement); the others are counted in DECIMAL_AMBIGUOUS
    from fractions import Fraction as F
    for gs in ("2.0", "0.3", "-2.0", "0.7", "1.1", "10.4"):
        for ts in ("0.1", "0.2", "0.3", "-0.1"):
            for off in ("-1", "1", "-1.5", "1.5", "-0.5", "0.5", "0"):
                st_exact = F(gs) + F(off) * abs(F(ts))
                ss = str(float(st_exact))
                if F(ss) != st_exact:
                    continue        # state not writable as the same short decimal
                g, t, sv = float(gs), float(ts), float(ss)
                exact = (F(gs) - abs(F(ts))) <= st_exact <= (F(gs) + abs(F(ts)))
                flt = (g - abs(t)) <= sv <= (g + abs(t))
                if exact != flt:
                    DECIMAL_AMBIGUOUS.add((ss, gs, ts))
                    continue
                for op in ("==", "!="):
                    for neg in (False, True):
                        for indirect in (False, True):
                            c = {"kind": "cmp", "state": ".q.s", "op": op, "neg": neg, "tol": t,
                                 "goal": {"path": ".q.g"} if indirect else g}
                            out.append((c, {".q.s": sv, ".q.g": g}))
    # explicitly written fields: state `sf in .q.s`, goal `gf in .q.g`; the shares hold other fields (value, the
    # other side's field name) with values for which the comparison comes out the other way
    for op in OPS:
        for neg in (False, True):
            for s_, g_ in ((5, 10), (10, 5), (5, 5)):
                wrong = g_ + (7 if g_ <= s_ else -7) if g_ != s_ else s_ + 3     # flips every operator's verdict
                for sfield in (None, "sf", "lim"):
                    for gfield in ("lim", "sf", "gf"):
                        # (`value` cannot be combined with other fields in direct data: a share read through its default
                        # field is a plain value share)
                        sv = s_ if sfield is None else {"sf": s_ if sfield == "sf" else wrong,
                                                        "lim": s_ if sfield == "lim" else wrong, "gf": wrong}
                        gv = {"sf": g_ if gfield == "sf" else wrong, "lim": g_ if gfield == "lim" else wrong,
                              "gf": g_ if gfield == "gf" else wrong}
                        for tol in ((None, 2) if op in ("==", "!=") else (None,)):
                            c = {"kind": "cmp", "state": ".q.s", "op": op, "neg": neg, "tol": tol,
                                 "goal": {"path": ".q.g", "field": gfield}}
                            if sfield:
                                c["sfield"] = sfield
                            out.append((c, {".q.s": sv, ".q.g": gv}))
    for op in OPS:      # clocks against a goal field of a share
        for kind, st0 in (("elapsed", 0.125), ("recurred", 1)):
            for g_ in (st0, st0 * 2, 0):
                wrong = g_ + (7 if g_ <= st0 else -7) if g_ != st0 else st0 + 3
                for re_ in (None, "me"):
                    c = {"kind": kind, "op": op, "neg": False, "goal": {"path": ".q.g", "field": "lim"}}
                    if re_ is not None:
                        c["re"] = re_
                    out.append((c, {".q.s": 0, ".q.g": {"lim": g_, kind: wrong}}))
    # framer clocks: bare spelling and the explicit `state re [me|<own framer name>]` spelling, goal direct or
    # from a share, with and without tolerance
    for op in OPS:
        for neg in (False, True):
            for kind, goals, tol1 in (("elapsed", (0.0, 0.0625, 0.125, 0.1875, 0.25), 0.0625), ("recurred", (0, 1, 2), 1)):
                for g in goals:
                    for re in (None, "", "me", "SELF"):
                        for indirect in (False, True):
                            for tol in ((None, tol1, -tol1) if op in ("==", "!=") else (None,)):
                                c = {"kind": kind, "op": op, "goal": {"path": ".q.g"} if indirect else g, "neg": neg}
                                if re is not None:
                                    c["re"] = re
                                if tol is not None:
                                    c["tol"] = tol
                                out.append((c, {".q.s": 0, ".q.g": g}))
    return out


def build_program(items):
    """items: list of (needs list, vals) -> program with one framer per item using private shares"""
    inits = []
    framers = []
    for i, item in enumerate(items):
        needs, vals = item[0], item[1]
        form = item[2] if len(item) > 2 else "go"
        ren = {}
        for p, v in vals.items():
            q = ".q%d.%s" % (i, p.split(".")[-1])
            ren[p] = q
            inits.append([q, v])
        ns = []
        for n in needs:
            n = dict(n)
            if "state" in n:
                n["state"] = ren[n["state"]]
            if isinstance(n.get("goal"), dict):
                n["goal"] = dict(n["goal"], path=ren[n["goal"]["path"]])
            if n.get("re") == "SELF":
                n["re"] = "m%d" % i
            ns.append(n)
        if form == "aux":
            # the same condition as the condition of a conditional auxiliary: started at its first evaluation iff it holds
            framers.append({"name": "m%d" % i, "sched": "active", "order": None, "period": None, "first": None,
                            "frames": [{"name": "a", "over": None, "acts": [{"kind": "aux", "name": "x%d" % i, "needs": ns}]}]})
            framers.append({"name": "x%d" % i, "sched": "aux", "order": None, "period": None, "first": None,
                            "frames": [{"name": "xa", "over": None, "acts": []}]})
            continue
        framers.append({"name": "m%d" % i, "sched": "active", "order": None, "period": None, "first": None,
                        "frames": [{"name": "a", "over": None, "acts": [{"kind": "go", "far": "b", "needs": ns}]},
                                   {"name": "b", "over": None, "acts": []}]})
    return {"period": P, "ticks": 1, "inits": inits, "framers": framers}


def run_items(items):
    """-> list of failures (sig, what) and per-item observed results"""
    prog = build_program(items)
    text, _ = A.render(prog)
    tr = run_real(prog, text=text)
    fails = []
    if tr["build"] != "True":
        return [("build-%s" % tr["build"], "script did not build: %s %s\n%s" % (tr["build"], tr["detail"], text))], []
    if tr.get("exc"):
        return [("run-exception-%s" % tr["exc"], "Skedder.run raised %s %s\n%s" % (tr["exc"], tr.get("exc_detail"), text))], []
    got = {}
    started = set()
    for t, i, e in all_events(tr):
        if t == 1 and e[0] == "act" and e[5] == "go":
            got.setdefault(e[1], e[6])
        if t == 1 and e[0] == "f" and e[3] == "enter" and e[1].startswith("x"):
            started.add(e[1])
    obs = []
    for i, item in enumerate(items):
        needs, vals = item[0], item[1]
        exp = all(truth(n, vals) for n in needs)
        g = got.get("m%d" % i)
        if len(item) > 2 and item[2] == "aux":
            g = ("x%d" % i) in started
            obs.append(g)
            if g != exp:
                fails.append(("wrong-conjunction-as-aux-condition" if len(needs) > 1 else "wrong-aux-condition",
                              "`aux x%d if %s` with %r: the auxiliary was %s at the first evaluation, the written condition is %r" % (
                                  i, A.render_needs(needs), vals, "started" if g else "not started", exp)))
            continue
        obs.append(g)
        if g is None:
            fails.append(("not-evaluated", "clause %r never evaluated at tick 1" % (needs,)))
        elif bool(g) != exp:
            kinds = "+".join(sorted(set(n["kind"] + ("-" + n["op"] if "op" in n else "") for n in needs)))
            fails.append(("wrong-%s" % kinds if len(needs) == 1 else "wrong-conjunction",
                          "condition `%s` with %r: ioflo says %r, the written comparison is %r" % (
                              A.render_needs(needs), vals, g, exp)))
    return fails, obs


def is_nt(needs, vals):
    if len(needs) > 1 or any(n.get("neg") for n in needs):
        return True
    n = needs[0]
    if n["kind"] == "cmp" and isinstance(vals[".q.s"], dict):
        return True
    if n["kind"] == "cmp" and not isinstance(vals[".q.s"], str):
        g = vals[".q.g"]
        s = vals[".q.s"]
        try:
            return abs(s - g) <= 0.5
        except TypeError:
            return True
    return n["kind"] in ("elapsed", "recurred")


CHUNK = 40


def plan(tier):
    n = 8
    shards = [{"part": "table", "i": i, "n": n} for i in range(n)]
    k = 4 if tier == "quick" else 16
    shards += [{"part": "conj", "i": i, "n": k, "count": 40 if tier == "quick" else 1200} for i in range(k)]
    shards += [{"part": "clone", "i": i, "n": 2} for i in range(2)]
    return shards


def clone_cases():
    """Clock conditions written inside a cloned framer: every operator x negation x spelling on elapsed / recurred with
    goals on, below and above the values the clone's own clocks take."""
    out = []
    for clock, goals in (("elapsed", ["0", "0.125", "0.25", "0.5", "9"]), ("recurred", ["0", "1", "2", "4", "90"])):
        for op in OPS:
            for neg in (False, True):
                for goal in goals:
                    for k, (sp, tag, delay) in enumerate(itertools.product(("", " re me"), CG.TAGS, (0, 2))):
                        if (len(out) + k) % 2 and goal not in ("0.25", "2"):
                            continue        # the full cross only for the goal in the middle of the run
                        out.append({"P": P, "cond": ["need", clock, op, goal, neg], "spelling": sp, "tag": tag, "delay": delay})
    return out


def letclone_cases():
    """Entry conditions (`let me if ...`) of a frame of a CLONED framer: a sample of the single clause table (direct and
    indirect goals, with and without `not`, with tolerance) and two-clause conjunctions of them."""
    table = [(c, v) for c, v in single_clauses() if c["kind"] in ("cmp", "bool") and not isinstance(v.get(".q.s"), dict)]
    picks = table[::29]
    out = [([c], v) for c, v in picks]
    for k in range(0, len(picks) - 1, 3):
        (c1, v1), (c2, v2) = picks[k], picks[k + 1]
        c2 = dict(c2)
        vals = dict(v1)
        if "state" in c2:
            c2["state"] = ".q.t"
            vals[".q.t"] = v2[".q.s"]
        if isinstance(c2.get("goal"), dict):
            c2["goal"] = dict(c2["goal"], path=".q.h")
            vals[".q.h"] = v2[".q.g"]
        out.append(([c1, c2], vals))
    return out


def check_letclone(needs, vals, tag):
    """-> failures. Frame O1 of the moot `org` is guarded by `let me if <needs>`; the clone (`aux org as <tag>`) tries
    to enter it at its first evaluation and must succeed iff the written condition holds."""
    from vp.flo.run import run_text
    L = ["house h"] + ["init %s with %s" % (p, A.lit(v)) for p, v in sorted(vals.items()) if not isinstance(v, dict)]
    L += ["framer main be active first f0", "frame f0", "aux org as %s" % tag, "framer org be moot", "frame O0", "go next",
          "frame O1", "let me if %s" % A.render_needs(needs), "print in"]
    text = "\n".join(L) + "\n"
    tr = run_text(text, 3, period=P)
    if tr["build"] != "True" or tr.get("exc"):
        return [("letclone-build:%s" % (tr.get("exc") or tr["build"]), "build %s %s\n%s" % (tr["build"], tr.get("detail"), text))]
    entered = any(e[0] == "f" and e[1] != "main" and e[2] == "O1" and e[3] == "enter" for t, i, e in all_events(tr))
    exp = all(truth(n, vals) for n in needs)
    if entered != exp:
        return [("wrong-entry-condition-in-clone", "`let me if %s` in a frame of the clone `aux org as %s` with %r: the frame was %s, the "
                 "written condition is %r\n%s" % (A.render_needs(needs), tag, vals, "entered" if entered else "refused", exp, text))]
    return []


def work(shard, seed, tier):
    acc = Acc()
    if shard["part"] == "clone" and shard["i"] == 0:
        for j, (needs, vals) in enumerate(letclone_cases()):
            tag = CG.TAGS[j % len(CG.TAGS)]
            fails = check_letclone(needs, vals, tag)
            acc.case(key=("letclone", A.render_needs(needs), repr(sorted(vals.items(), key=str)), tag), nontrivial=True,
                     classes=["entry-condition-in-clone", "entry-condition-in-clone:" + ("negated" if any(n.get("neg") for n in needs) else "plain")],
                     sample={"condition": A.render_needs(needs), "values": {k: v for k, v in vals.items()}} if j % 41 == 0 else None)
            for sig, what in fails:
                acc.fail(sig, what, {"letclone": {"needs": needs, "vals": vals, "tag": tag}})
    if shard["part"] == "clone":
        cases = [c for j, c in enumerate(clone_cases()) if j % shard["n"] == shard["i"]]
        for j, case in enumerate(cases):
            fails, tr, info = CG.check(case)
            acc.case(key=("clone", repr(case)), nontrivial=True,
                     classes=["clone-clock-condition", "clone:" + case["cond"][1] + case["cond"][2]],
                     sample={"script": tr.get("text"), "expected_leave": info.get("exp")} if j % 97 == 0 else None)
            for sig, what in fails:
                acc.fail(sig, what, {"clone": case})
        acc.note("clock conditions inside cloned framers: %d (clock, operator, negation, goal, spelling, tag, delay) cases enumerated"
                 % len(clone_cases()))
        return acc
    if shard["part"] == "table":
        table = single_clauses()
        mine = [x for j, x in enumerate(table) if j % shard["n"] == shard["i"]]
        for c0 in range(0, len(mine), CHUNK):
            chunk = mine[c0:c0 + CHUNK]
            items = [([c], vals) for c, vals in chunk]
            fails, obs = run_items(items)
            for (needs, vals) in items:
                acc.case(key=(A.render_needs(needs), sorted(vals.items(), key=str)), nontrivial=is_nt(needs, vals),
                         classes=[needs[0]["kind"] + ("" if "op" not in needs[0] else needs[0]["op"])] +
                         (["decimal-band-edge"] if needs[0]["kind"] == "cmp" and needs[0].get("tol") and
                          isinstance(vals.get(".q.s"), float) and not float(vals[".q.s"] * 8).is_integer() else []) +
                         (["explicit-goal-field"] if isinstance(needs[0].get("goal"), dict) and needs[0]["goal"].get("field") else []))
            if c0 == 0:
                acc.samples.append({"conditions": [A.render_needs(n) for n, v in items[:6]], "values": [v for n, v in items[:6]]})
            for sig, what in fails:
                acc.fail(sig, what, {"items": [[n, v] for n, v in items]})
        acc.exhaustive = True
        acc.note("single-clause table enumerated completely (%d clauses); %d decimal band-edge triples left out because "
                 "float and exact evaluation of the stated band formula differ" % (len(single_clauses()), len(DECIMAL_AMBIGUOUS)))
        return acc
    table = single_clauses()

    @st.composite
    def conj(draw):
        items = []
        for _ in range(draw(st.integers(4, 12))):
            k = draw(st.integers(1, 3))
            needs = []
            vals = {}
            for j in range(k):
                c, v = table[draw(st.integers(0, len(table) - 1))]
                c = dict(c)
                # private share names per clause
                if "state" in c:
                    c["state"] = ".q.s%d" % j
                    vals[".q.s%d" % j] = v[".q.s"]
                if isinstance(c.get("goal"), dict):
                    c["goal"] = dict(c["goal"], path=".q.g%d" % j)
                    vals[".q.g%d" % j] = v[".q.g"]
                elif "state" not in c:
                    vals.setdefault(".q.g%d" % j, 0)
                needs.append(c)
            items.append([needs, vals, draw(st.sampled_from(["go", "go", "aux"]))])
        return items

    def execute(items):
        fails, obs = run_items([tuple(it) for it in items])
        nt = any(len(it[0]) > 1 for it in items)
        return Outcome(fails, nontrivial=nt, classes=["conjunctions"] + (["conjunction-as-conditional-aux-condition"]
                                                                         if any(it[2] == "aux" and len(it[0]) > 1 for it in items) else []),
                       key=items, sample={"conditions": [A.render_needs(it[0]) for it in items[:4]]})
    campaign(acc, conj(), execute, shard["count"], seed * 1000 + shard["i"], to_case=lambda it: {"items": it})
    return acc


def replay(case):
    if "clone" in case:
        return CG.check(case["clone"])[0]
    if "letclone" in case:
        c = case["letclone"]
        return check_letclone(c["needs"], c["vals"], c["tag"])
    fails, obs = run_items([tuple(it) for it in case["items"]])
    return fails


RULE = ("full table of single clauses (6 operators x not x int/float/negative/zero/string/bool states x goal on/below/above the state x direct/indirect goal x "
        "tolerance none/0/0.5/-0.5; decimal states on / inside / outside the edge of decimal tolerance bands; explicitly written state and goal fields (`sf in path`) of multi-field shares; elapsed/recurred clocks in the bare and the `re [me|framer]` spelling with direct/indirect goal and tolerance; bare truthiness) + Hypothesis conjunctions of 1-3 clauses (a third of them written as the condition of a conditional auxiliary, `aux x if ..`, started iff it holds); each clause is a `go b if ..` whose "
        "outcome at its first evaluation is compared with direct evaluation of the written comparison; clock conditions written inside a CLONED framer (`aux moot as mine|tag`): "
        "the tick at which the clone leaves the frame vs exact evaluation on the clone's own clocks; a sample of the clause table and two-clause conjunctions as ENTRY conditions (`let me if ..`) of a frame of a cloned framer. non-trivial = negated, conjunction, clock, or goal "
        "within 0.5 of the state (boundary); distinct = distinct (condition text, share values)")
ASSUMPTIONS = ["ordering operators are only generated between number-number and string-string operands",
               "booleans are compared with ==/!= against booleans without tolerance and by bare truthiness only (whether a bool is a 'number' for the tolerance rule is not stated)",
               "decimal band-edge values are only used where goal-|tol| <= state <= goal+|tol| has the same verdict in float arithmetic and in exact arithmetic on the written decimals",
               "at the first evaluation elapsed equals one tick period (0.125) and recurred equals 1 (C11 decides the clocks)"]
META = {"level": LEVEL,
        "text": "The complete table of single comparison clauses and thousands of conjunctions are run through the real builder and framer and compared with direct evaluation.",
        "note": "Values are limited to the small sets listed; literal conversion itself is C17's subject.",
        "technique": "exhaustive table + Hypothesis conjunctions vs direct evaluation of the written comparison",
        "design_ref": "DESIGN.md section 3, C21"}
