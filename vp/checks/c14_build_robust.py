"""C14 Building any script terminates with success or a script error.

Generator (vp.flo.tokens): (gen) grammar-aware random programs whose references come from
small name pools, with 0..4 token-level mutations; (plan) the example plans of the tree
under test with 1..4 token-level mutations; (soup) token soups from the verb / connective /
comparison vocabulary inside a minimal valid skeleton; (adv) adversarial structures: cyclic
and dangling in/over/under/next/first/aux/clone references, duplicate names, taskers of the
wrong kind; (atheris, thorough tier) a coverage-guided byte-level libFuzzer campaign over ioflo.base
with a FloScript token dictionary (vp.fuzz.fuzz_flo). Every script is only *built*
(Skedder.build -> Builder.build), never run.

Oracle: the build returns True or False, or raises ParseError / ResolveError / ValueError;
anything else escaping is a violation, and so is a build that uses more than 5 s of CPU time
(typical build: 2 ms). Collect-then-classify: signature = exception type @ innermost
ioflo file:function (for a hang: the deepest ioflo frame that stayed on the stack between two
samples, i.e. the function that owns the loop), each signature is shrunk (lines, then tokens)
and reported once.
"""
import contextlib
import glob
import os
import random
import signal
import traceback

from hypothesis import strategies as st

from vp.core import env
from vp.core.acc import Acc, Failure, jsonable
from vp.core.hyp import campaign, Outcome, Budget, shrink_json
from vp.flo import tokens as T
from vp.flo.build import build_text

PROPERTY = "C14"
LEVEL = "exploration"
CPU_LIMIT = 5.0
RULE = ("Hypothesis draws (kind, mutation count, looseness, content seed); content comes from a "
        "grammar-aware token generator with small name pools (gen), the tree's example plans (plan), "
        "verb/connective token soups in a valid skeleton (soup) and adversarial reference structures "
        "(adv: cyclic/dangling in/over/under/next/first/aux/clone, duplicates); 0-4 token-level mutations "
        "(delete/duplicate/swap/replace by reserved word, number, quoted string, garbage, name, verb; "
        "line delete/duplicate/swap/move/join/split). Oracle: outcome in {True, False, ParseError, "
        "ResolveError, ValueError} within 5 s CPU. non-trivial = script with >= 3 command lines whose build "
        "reached a framer (a command was dispatched successfully with a current framer) before the first "
        "error; distinct = distinct script text")
ASSUMPTIONS = [
    "scripts are only built, never run: logger/server create directories/sockets only in their runners",
    "`load` operands are confined to side files of the private temp dir that contain no `load` (acyclic); "
    "self-referential load chains are not generated (they end only when the process runs out of file descriptors)",
    "any ValueError is accepted as 'the literal converters' value error' (sites are listed in coverage.classes)",
    "Builder.dispatch and House.resolve are wrapped in the check process only to measure how far a build got",
]
META = {
    "level": "exploration",
    "text": "Thousands of generated, mutated and adversarial scripts are built by the real Builder under a CPU "
            "watchdog; every escaping exception class other than the documented script errors and every "
            "non-terminating build is bucketed by (type, innermost ioflo function) and reported once. Absence "
            "of internal errors is shown only for the explored scripts.",
    "note": "Trusts the harness classification of exception classes and the 5 s CPU watchdog (2000x a typical "
            "build). Build-time side effects are confined to a private temp dir.",
    "technique": "grammar-aware + mutational fuzzing of FloScript (Hypothesis-driven), outcome-class oracle, CPU watchdog",
    "design_ref": "DESIGN.md section 3, C14",
}
HARD_CAP_S = {"quick": 600, "thorough": 3600}

TRACE = {"ok": 0, "framer": False, "resolve": False}


def _instrument():
    """Harness-side probes (in this process only): how far did the build get."""
    env.quiet_ioflo()
    from ioflo.base import building, housing
    if getattr(building.Builder, "_vp_probe", False):
        return
    orig = building.Builder.dispatch

    def dispatch(self, tokens):
        r = orig(self, tokens)
        TRACE["ok"] += 1
        if self.currentFramer is not None:
            TRACE["framer"] = True
        return r
    building.Builder.dispatch = dispatch
    building.Builder._vp_probe = True
    oresolve = housing.House.resolve

    def resolve(self):
        TRACE["resolve"] = True
        return oresolve(self)
    housing.House.resolve = resolve


@contextlib.contextmanager
def loop_watchdog(limit):
    """CPU-time watchdog that also names the loop: the virtual timer fires every limit/2 seconds;
    the first firing samples the stack, the second (at `limit`) raises env.Hang whose .site is the
    deepest ioflo frame that was already on the stack at the first sample (the frame that owns the
    loop; frames below it come and go). The timer keeps firing, so a Hang that is swallowed (raised
    inside a finalizer: 'Exception ignored in ...') is raised again."""
    state = {"n": 0, "first": None}

    def handler(signum, frame):
        state["n"] += 1
        if state["n"] == 1:
            frames = []
            f = frame
            while f is not None:
                frames.append(f)
                f = f.f_back
            state["first"] = frames
            return
        site, detail = "unknown", ""
        ids = set(id(f) for f in (state["first"] or ()))
        f = frame
        while f is not None:
            fn = f.f_code.co_filename.replace("\\", "/")
            if id(f) in ids and "/ioflo/" in fn:
                site = "%s:%s" % (os.path.basename(fn), f.f_code.co_name)
                detail = "%s line %s in %s" % (os.path.basename(fn), f.f_lineno, f.f_code.co_name)
                break
            f = f.f_back
        h = env.Hang("cpu watchdog %ss" % limit)
        h.site, h.detail = site, detail
        raise h
    old = signal.signal(signal.SIGVTALRM, handler)
    signal.setitimer(signal.ITIMER_VIRTUAL, limit / 2.0, limit / 2.0)
    try:
        yield
    finally:
        signal.setitimer(signal.ITIMER_VIRTUAL, 0)
        signal.signal(signal.SIGVTALRM, old)
        state["first"] = None


def _site(tb):
    """innermost ioflo frame of a traceback -> 'file.py:function', plus line info."""
    site, detail, verb = "unknown", "", ""
    for fs in traceback.extract_tb(tb):
        fn = fs.filename.replace("\\", "/")
        if "/ioflo/" in fn:
            base = os.path.basename(fn)
            if fs.name == "_prepio" and "/trim/interior/" in fn:
                # legacy deed interface: the deed's _prepio receives the script's per/for values unchecked;
                # whatever fails below it has this one root cause
                return "legacy-deed:%s:_prepio" % base, "%s line %s: %s" % (base, fs.lineno, (fs.line or "").strip())
            site = "%s:%s" % (base, fs.name)
            detail = "%s line %s: %s" % (base, fs.lineno, (fs.line or "").strip())
            if base == "building.py" and fs.name.startswith("build") and fs.name != "build" and not verb:
                verb = fs.name
    if verb and not site.startswith("building.py:"):
        site += "<" + verb      # error inside a helper module: name the verb method that called it
    return site, detail


def run_case(lines, files, limit=CPU_LIMIT):
    """Build one script. Returns (outcome label, [(sig, what)], info dict)."""
    _instrument()
    from ioflo.base import excepting
    TRACE.update(ok=0, framer=False, resolve=False)
    text = T.render(lines)
    ftexts = dict((k, T.render(v)) for k, v in (files or {}).items())
    try:
        with loop_watchdog(limit):
            b = build_text(text, files=ftexts)
    except env.Hang as h:
        sig = "Hang@" + getattr(h, "site", "unknown")
        return "Hang", [(sig, "build did not finish within %s s of CPU time; looping in %s"
                         % (limit, getattr(h, "detail", "?")))], dict(TRACE)
    except MemoryError as ex:
        site, detail = _site(ex.__traceback__)
        return "MemoryError", [("MemoryError@" + site, "build exhausted memory in %s" % detail)], dict(TRACE)
    info = dict(TRACE)
    if b.exc is None:
        return ("True" if b.ok else "False"), [], info
    ex = b.exc
    name = type(ex).__name__
    site, detail = _site(ex.__traceback__)
    if isinstance(ex, (excepting.ParseError, excepting.ResolveError)):
        return name, [], info
    if isinstance(ex, ValueError):
        return "ValueError@" + site, [], info
    sig = "%s@%s" % (name, site)
    what = "Builder.build let %s escape: %s (%s)" % (name, str(ex).strip()[:200], detail)
    return "VIOLATION:" + name, [(sig, what)], info


# ------------------------------------------------------------------------------------------
_PLANS = None


def plans():
    global _PLANS
    if _PLANS is None:
        _PLANS = []
        for path in sorted(glob.glob(os.path.join(env.REPO, "ioflo", "app", "plan", "*.flo"))):
            with open(path) as fh:
                _PLANS.append((os.path.basename(path), T.tokenize_text(fh.read())))
    return _PLANS


def make_case(kind, nmut, loose, cseed):
    """Deterministic function of the drawn parameters -> case dict."""
    rnd = random.Random(cseed)
    vocab = T.vocabulary()
    files = {"side.flo": T.gen_side(rnd)}
    gps = [p for n, p in plans() if n == "gps.flo"]
    files["side2.flo"] = T.sanitize_side([list(t) for t in gps[0]]) if gps else T.gen_side(rnd)
    src = kind
    if kind == "gen":
        lines = T.gen_program(rnd, loose)
    elif kind == "plan":
        name, toks = plans()[rnd.randrange(len(plans()))]
        lines = [list(t) for t in toks]
        src = "plan:" + name
        nmut = max(1, nmut)
    elif kind == "soup":
        lines = T.gen_soup(rnd, vocab)
    else:
        lines = T.gen_adversarial(rnd)
    muts = T.mutate(lines, rnd, nmut, vocab) if nmut else []
    T.sanitize(lines, rnd)
    return {"kind": src, "muts": muts, "lines": lines, "files": files}


def execute_case(case, limit=CPU_LIMIT):
    outcome, fails, info = run_case(case["lines"], case.get("files"), limit)
    nt = len(case["lines"]) >= 3 and info["framer"]
    stage = "stage:resolve" if info["resolve"] else ("stage:framer" if info["framer"] else "stage:early")
    classes = ["kind:" + case.get("kind", "?").split(":")[0], "outcome:" + outcome, stage,
               "muts:%d" % len(case.get("muts", ()))]
    return Outcome(fails, nontrivial=nt, classes=classes, key=T.render(case["lines"]),
                   sample={"kind": case.get("kind"), "muts": case.get("muts"), "outcome": outcome,
                           "text": T.render(case["lines"])[:600]})


def _shrink(acc, tier, budget):
    """Shrink the first case of every signature (lines, then tokens); put it first."""
    per_sig = 6.0 if tier == "quick" else 20.0
    for sig in list(acc.failures)[:6]:
        if budget.left() < 3:
            break
        f0 = acc.failures[sig][0]
        case = f0.case
        hang = sig.startswith("Hang@")
        lim = 1.0 if hang else CPU_LIMIT   # candidate test only; the result is confirmed with the full limit

        def still(c, sig=sig, lim=lim):
            if not isinstance(c, dict) or "lines" not in c:
                return False
            if not all(isinstance(l, list) and all(isinstance(t, str) for t in l) for l in c["lines"]):
                return False
            _, fails, _ = run_case([l for l in c["lines"] if l], c.get("files"), lim)
            return any(s == sig for s, _ in fails)
        core = {"lines": case["lines"], "files": case.get("files", {})}
        small = shrink_json(core, still, seconds=min(per_sig, max(1.0, budget.left() - 2)))
        small["lines"] = [l for l in small["lines"] if l]
        _, fails, _ = run_case(small["lines"], small.get("files"), CPU_LIMIT)
        hit = [w for s, w in fails if s == sig]
        if hit:
            new = dict(case)
            new.update(small)
            acc.failures[sig].insert(0, Failure(sig, "(shrunk) " + hit[0] + " | script: " +
                                                T.render(small["lines"]).replace("\n", " / ")[:300], jsonable(new)))
            del acc.failures[sig][3:]


# ------------------------------------------------------------------------------------------
def plan(tier):
    mix = ["gen", "plan", "adv", "soup", "gen", "adv", "plan", "gen"]
    if tier == "quick":
        return [{"kind": k, "i": i, "n": 3000} for i, k in enumerate(mix)]
    shards = []
    shards += [{"kind": "atheris", "i": 100 + j, "runs": 40000} for j in range(2)]   # long poles first
    for rep in range(6):
        shards += [{"kind": k, "i": rep * 8 + i, "n": 8500} for i, k in enumerate(mix)]
    return shards


def work(shard, seed, tier):
    acc = Acc()
    kind = shard["kind"]
    if kind == "atheris":       # coverage-guided byte-level campaign (thorough tier), same oracle inside the target
        from vp.fuzz.fuzz_flo import run_campaign
        run_campaign(acc, shard["runs"], seed * 1000 + shard["i"])
        return acc
    budget = Budget(240 if tier == "quick" else 1500)
    strat = st.tuples(st.just(kind), st.sampled_from([0, 0, 1, 1, 2, 3, 4]),
                      st.sampled_from([0.0, 0.03, 0.1, 0.3]), st.integers(0, 2 ** 62))

    hangs = [0]

    def execute(v):
        if hangs[0] >= 4:       # non-termination is established; every further hang costs 5 s of CPU
            acc.budget_hit = True
            acc.note("campaign of a shard stopped early after 4 non-terminating builds")
            return Outcome([], nontrivial=False, classes=["skipped-after-hangs"], key=("skipped", v[3]))
        out = execute_case(make_case(*v))
        if any(sig.startswith("Hang@") for sig, _ in out.failures):
            hangs[0] += 1
        return out

    campaign(acc, strat, execute, shard["n"], seed * 1000 + shard["i"], to_case=lambda v: make_case(*v),
             budget=budget, shrink=False)
    _shrink(acc, tier, budget)
    return acc


def replay(case):
    lines = [l for l in case["lines"] if l]
    _, fails, _ = run_case(lines, case.get("files"), CPU_LIMIT)
    return fails
