"""C23 Log rotation and flushing never lose or duplicate retained records.

Generator (configurations x histories x crash points): keep 0..3, cycle period, size threshold
{0, small, large}, flush interval, reuse flag, rule always/update, tick length; a history of up
to 60 ticks, each tick = optional stamped write (unique sequence number + padding of generated
length, always BEFORE the logger in the tick) and at most one logger control out of
START / RUN / STOP / ABORT / idle / "new process" (fresh House+Logger+Log objects on the same
prefix, what a restarted program has).

Injected fault (a third of the cases): the first os.rename of the rotate chain of chosen Log.cycle invocations fails
with EACCES; nothing has moved, the rotation is abandoned and the main file must go on without losing a record.

Crash points (fault enumeration): the end of every tick and every step inside Log.cycle (before
and after each os.rename, after the truncating ocfn) - there the log directory is read through
fresh file descriptors, which is exactly what survives the death of the process (OS buffers
survive, Python's userspace buffers do not). The thorough tier additionally runs real
subprocesses that are SIGKILLed at a chosen crash point.

Oracle: a file-content model driven by the predicted record stream and the *observed* rotations
(i-node of the main file moved to copy 01):
  * every retained file holds exactly header + one contiguous stretch of the stream, copies shift
    main -> 01 -> 02 ..., nothing twice, nothing in a wrong file (closed files: equality; the open
    main file at a crash point: a prefix of the expected text that includes everything written
    before the most recent flush);
  * inside Log.cycle every record of the stream that is still retained is in exactly one file;
  * a rotation happens only if the rotated file has at least `size` bytes, and when Log.cycle is
    invoked with the (flushed) main file at or above the threshold the rotation does happen;
  * bounded staleness of the flush interval: after a logger run at time t every record written
    at or before t - flushPeriod has been flushed.
"""
import json
import os
import shutil
import signal
import subprocess
import sys
import tempfile
import traceback

from vp.core.acc import Acc

PROPERTY = "C23"
LEVEL = "fault_enumeration"
RULE = ("Hypothesis-generated configurations (keep 0-3 x cyclePeriod x fileSize {0,small,large} x flushPeriod x reuse x "
        "rule always/update x tick length) with histories of 8-60 ticks (write-before-logger, START/RUN/STOP/ABORT/idle/"
        "new-process controls; a third with an injected failure of the first rename of chosen rotations); crash points enumerated = end of every tick + every step inside Log.cycle (around each "
        "rename, after the truncating open), each checked through fresh file descriptors against the file-content model; "
        "thorough adds subprocesses SIGKILLed at a generated crash point. non-trivial = at least 2 observed rotations, or a "
        "crash point with written-but-unflushed records; distinct = distinct (configuration, history) digest")
ASSUMPTIONS = [
    "process death keeps what reached the OS (file contents visible through a new file descriptor) and loses Python's userspace buffers; "
    "power loss (fsync durability) is out of scope of the statement and not observable here",
    "a flush is a call of Log.flush on an open file (periodic by Logger.log, at the start of Log.cycle, in Log.close); the harness observes the "
    "calls through an instance wrapper and checks their effect on disk",
    "effective flush period is Logger.flushPeriod = max(1.0, given); 'time between flushes' is read as: after a logger run at t every record "
    "written at or before t - flushPeriod is flushed (follows from Logger.log for every run schedule)",
    "a rotation is observed as the main file's i-node appearing under the name of copy 01; Log.cycle flushes before it reads the size, so the "
    "size that decides is the logical size of the main file; fileSize 0 means always rotate when Log.cycle is invoked (Logger docstring)",
    "rotation copies form the chain main -> 01 -> 02 ... (test_logging.testCycle); trial-created copies are empty files without header",
    "writes precede the logger inside a tick so the record stream of rule update is unambiguous (see C22 for the other order)",
]
META = {
    "level": LEVEL,
    "text": "For every generated configuration and history all crash points of the enumerated kinds (each tick boundary, each step of the "
            "rename chain) are checked; configurations and histories themselves are sampled, so absence is shown for the enumerated crash "
            "points of the explored histories only.",
    "note": "Trusts the harness file-content model (record prediction for always/update, rotations taken from observation) and that a fresh "
            "file descriptor shows what survives SIGKILL (validated by the real-kill runs of the thorough tier).",
    "technique": "Hypothesis configurations/histories + enumerated crash points with fresh-descriptor directory snapshots vs file-content "
                 "model; real SIGKILLed subprocesses (thorough)",
    "design_ref": "DESIGN.md section 3, C23",
}
HARD_CAP_S = {"quick": 900, "thorough": 3600}

_TMPROOT = "/dev/shm" if os.path.isdir("/dev/shm") and os.access("/dev/shm", os.W_OK) else None
LOGNAME = "R"


# ======================================================================================
# expectations and their verification (pure functions over the directory contents)

def _read_fresh(path):
    try:
        fd = os.open(path, os.O_RDONLY)
    except OSError:
        return None
    try:
        chunks = []
        while True:
            b = os.read(fd, 1 << 16)
            if not b:
                break
            chunks.append(b)
    finally:
        os.close(fd)
    return b"".join(chunks).decode("ascii", "replace")


def _names(keep):
    return [LOGNAME + ".txt"] + ["%s%02d.txt" % (LOGNAME, k) for k in range(1, keep + 1)]


def verify(expect, dirpath):
    """expect = {"mode": "exact", "header": h, "files": [{"name", "exp", "guar", "closed"}], "all": [all record lines so far]}
              | {"mode": "union", "header": h, "must": [...], "may": [...], "names": [...]}
    Returns [(sig, what)]."""
    fails = []
    header = expect["header"]
    hl = header.splitlines(True)
    try:
        listing = sorted(os.listdir(dirpath))
    except OSError:
        listing = []
    if expect["mode"] == "exact":
        known = set(f["name"] for f in expect["files"])
        for name in listing:
            if name not in known:
                fails.append(("unexpected-file", "file %r in the log directory, expected only %r" % (name, sorted(known))))
        allidx = dict((ln, i) for i, ln in enumerate(expect.get("all") or []))
        for f in expect["files"]:
            content = _read_fresh(os.path.join(dirpath, f["name"]))
            exp, guar, closed = f["exp"], f["guar"], f["closed"]
            if content is None:
                content = ""
                if closed and not f.get("may_be_missing"):
                    fails.append(("file-missing", "%s does not exist" % f["name"]))
                    continue
            if closed:
                ok = content == exp
            else:
                ok = exp.startswith(content) and content.startswith(guar)
            if ok:
                continue
            fails.append(_diagnose(f["name"], content, exp, guar, closed, hl, allidx))
        return fails
    # union mode: inside Log.cycle
    must = expect["must"]
    may = set(expect["may"])
    counts = {}
    for name in listing:
        content = _read_fresh(os.path.join(dirpath, name)) or ""
        if name not in expect["names"]:
            fails.append(("unexpected-file", "file %r in the log directory during rotation" % name))
        if content and not content.startswith(header) and not header.startswith(content):
            fails.append(("header-missing", "during rotation %s is non-empty and does not start with the header: %r" % (name, content[:120])))
        last = -1
        for ln in content.splitlines(True):
            if ln in hl:
                continue
            counts[ln] = counts.get(ln, 0) + 1
            if ln in expect["index"]:
                i = expect["index"][ln]
                if i < last:
                    fails.append(("record-order", "during rotation %s holds records out of stream order" % name))
                last = i
    for ln in must:
        c = counts.get(ln, 0)
        if c == 0:
            fails.append(("flushed-record-missing-at-crash", "crash inside Log.cycle (%s): record %r written before the flush that starts "
                          "the rotation is in no file" % (expect.get("step"), ln)))
            break
        if c > 1:
            fails.append(("record-duplicated", "crash inside Log.cycle (%s): record %r is in %d files" % (expect.get("step"), ln, c)))
            break
    for ln, c in sorted(counts.items()):
        if ln in may:
            if c > 1:
                fails.append(("record-duplicated", "crash inside Log.cycle: record %r is in %d files" % (ln, c)))
                break
        elif ln not in expect["index"]:
            if not ln.endswith("\n"):
                continue
            fails.append(("phantom-record", "crash inside Log.cycle: line %r was never written" % ln))
            break
    return fails


def _diagnose(name, content, exp, guar, closed, hl, allidx):
    header = "".join(hl)
    where = "%s (%s)" % (name, "closed" if closed else "open at the crash point")
    lines = content.splitlines(True)
    explines = [ln for ln in exp.splitlines(True) if ln not in hl]
    if exp.startswith(header) and content and not (content.startswith(header) or header.startswith(content)):
        return ("header-missing", "%s does not start with the header: %r" % (where, content[:160]))
    if not exp.startswith(header) and content.startswith(hl[0]):
        return ("header-unexpected", "%s starts with a header although it was never (re)created: %r" % (where, content[:160]))
    if sum(1 for ln in lines if ln == hl[0]) > 1:
        return ("header-repeated", "%s holds the header more than once: %r" % (where, content[:300]))
    recs = [ln for ln in lines if ln not in hl]
    seen = set()
    for ln in recs:
        if ln in seen:
            return ("record-duplicated", "%s holds record %r twice" % (where, ln))
        seen.add(ln)
    expset = set(explines)
    for j, ln in enumerate(recs):
        if ln not in expset:
            if j == len(recs) - 1 and not ln.endswith("\n") and not closed:
                continue
            if ln in allidx:
                return ("record-in-wrong-file", "%s holds record %r that belongs to another file of the rotation" % (where, ln))
            return ("phantom-record", "%s holds line %r that was never written" % (where, ln))
    idx = [explines.index(ln) for ln in recs if ln in expset]
    if idx != sorted(idx):
        return ("record-order", "%s holds records out of stream order: %r" % (where, recs[:12]))
    guarlines = [ln for ln in guar.splitlines(True) if ln not in hl]
    for ln in guarlines:
        if ln not in seen:
            if closed:
                return ("record-lost", "%s lacks record %r (expected %d records, found %d)" % (where, ln, len(explines), len(recs)))
            return ("flushed-record-missing-at-crash", "%s lacks record %r that was written before the most recent flush "
                    "(%d records flushed, %d found)" % (where, ln, len(guarlines), len(recs)))
    if closed and len(recs) < len(explines):
        return ("record-lost", "%s lacks record %r" % (where, [ln for ln in explines if ln not in seen][0]))
    if not content.startswith(guar):
        return ("flushed-data-missing-at-crash", "%s: the flushed text (%d bytes, header included) is not on disk: %r"
                % (where, len(guar), content[:120]))
    return ("file-content-mismatch", "%s: found %r, expected %r" % (where, content[:300], exp[:300]))


# ======================================================================================
# model of one log directory

class DirModel(object):
    def __init__(self, keep, header):
        self.keep = keep
        self.header = header
        self.path = None
        self.files = [{"lines": [], "times": [], "hdr": k == 0} for k in range(keep + 1)]
        self.gmain = 0          # records of the main file known to be flushed
        self.ghdr = False       # header of the main file known to be flushed
        self.closed = True
        self.all = []           # every record line ever written into this directory, in order
        self.rotations = 0

    def text(self, k, upto=None):
        f = self.files[k]
        lines = f["lines"] if upto is None else f["lines"][:upto]
        return (self.header if f["hdr"] else "") + "".join(lines)

    def expect_exact(self):
        names = _names(self.keep)
        files = []
        for k in range(self.keep + 1):
            if k == 0:
                guar = (self.header if (self.ghdr and self.files[0]["hdr"]) else "") + "".join(self.files[0]["lines"][:self.gmain])
                if self.closed:
                    guar = self.text(0)
                files.append({"name": names[0], "exp": self.text(0), "guar": guar, "closed": self.closed})
            else:
                files.append({"name": names[k], "exp": self.text(k), "guar": self.text(k), "closed": True})
        return {"mode": "exact", "header": self.header, "files": files, "all": list(self.all)}

    def expect_union(self, step):
        must = []
        for k in range(self.keep):          # files 0 .. K-1 survive the rotation
            must.extend(self.files[k]["lines"])
        if self.keep == 0:
            must = list(self.files[0]["lines"])
        may = list(self.files[self.keep]["lines"]) if self.keep > 0 else []
        return {"mode": "union", "header": self.header, "must": must, "may": may, "names": _names(self.keep),
                "index": dict((ln, i) for i, ln in enumerate(self.all)), "step": step}

    def shift(self):
        self.files = [{"lines": [], "times": [], "hdr": True}] + self.files[:-1]
        self.gmain = 0
        self.ghdr = True
        self.rotations += 1


# ======================================================================================
# executor

def _norm(case):
    """Effective control per tick."""
    out = []
    state = "none"       # none | running | stopped | aborted
    for tick in case["ticks"]:
        c = tick[0]
        eff = None
        if c == "start" and state in ("none", "stopped"):
            eff, state = "start", "running"
        elif c == "run" and state == "running":
            eff = "run"
        elif c == "stop" and state == "running":
            eff, state = "stop", "stopped"
        elif c == "abort" and state == "running":
            eff, state = "abort", "aborted"
        elif c == "newproc" and state in ("stopped", "aborted"):
            eff, state = "newproc", "none"
        out.append(eff)
    return out


def _ioflo_site(tb):
    site = "?"
    for fr in traceback.extract_tb(tb):
        if "/ioflo/" in fr.filename:
            site = "%s:%s" % (os.path.basename(fr.filename), fr.name)
    return site


class _EndCase(BaseException):
    """Raised to end a case after a rename failure in the middle of the rotate chain (the copies are then partly shifted;
    what the directory must hold from there on is not modelled)."""


class _OsProxy(object):
    def __init__(self, real, hook, fault=None):
        self._real = real
        self._hook = hook
        self._fault = fault     # callable: True -> this os.rename fails with EACCES (injected fault)

    def __getattr__(self, name):
        return getattr(self._real, name)

    def rename(self, old, new):
        self._hook("before rename %s -> %s" % (os.path.basename(old), os.path.basename(new)))
        if self._fault is not None and self._fault():
            import errno
            raise OSError(errno.EACCES, "injected: permission denied", old)
        r = self._real.rename(old, new)
        self._hook("after rename %s -> %s" % (os.path.basename(old), os.path.basename(new)))
        return r


class Runner(object):
    """Runs one case against the real Logger/Log with the model side by side."""

    def __init__(self, case, root, stop_at=None):
        self.case = case
        self.root = root
        self.stop_at = stop_at
        self.fails = []
        self.points = 0             # crash points passed
        self.cyc_idx = []           # indices (1-based) of the crash points inside Log.cycle
        self.unflushed_points = 0   # crash points with written-but-unflushed records
        self.cycle_points = 0
        self.rotations = 0
        self.cycle_calls = 0
        self.flushes = 0
        self.records = 0
        self.dm = None              # current DirModel
        self.in_cycle = False
        self.seq = 0
        self.header = "text\t%s\t%s\n_time\ts.seq\ts.pad\n" % ("Always" if case["rule"] == "always" else "Update", LOGNAME)
        self.house = self.logger = self.log = self.share = None
        self.faults = set(case.get("renamefault") or ())   # indices of the Log.cycle invocations whose first rename fails
        self.fault_armed = False
        self.faultpos = int(case.get("faultpos") or 0)     # which rename of the chain fails (0 = the first)
        self.renames_seen = 0
        self.faults_injected = 0
        self.logged = False         # this Log object has written a record
        self.pending = False        # stamped write since the last record
        self.procs = 0

    # ------------------------------------------------------------------ failures
    def fail(self, sig, what):
        if not any(s == sig for s, _ in self.fails):
            self.fails.append((sig, what))

    # ------------------------------------------------------------------ crash points
    def crash_point(self, expect, dirpath, kind):
        self.points += 1
        if kind.startswith("inside"):
            self.cyc_idx.append(self.points)
        if self.stop_at is not None:
            if self.points == self.stop_at:
                # child mode: report and wait for SIGKILL right here, deep inside the logger's call stack.
                # (No exception: unwinding would run Logger.makeRunner's finally clause, which closes and
                # flushes the log files - a process that is killed does not do that.)
                os.write(1, b"READY " + json.dumps({"expect": expect, "dir": dirpath, "kind": kind}).encode() + b"\n")
                while True:
                    signal.pause()
            return
        for sig, what in verify(expect, dirpath):
            self.fail(sig, "[crash point %d, %s] %s" % (self.points, kind, what))

    def hook(self, step):
        if not self.in_cycle or self.dm is None or self.dm.path is None:
            return
        self.cycle_points += 1
        self.crash_point(self.dm.expect_union(step), self.dm.path, "inside Log.cycle " + step)

    # ------------------------------------------------------------------ objects
    def new_process(self, t):
        from ioflo.base import housing, logging as iolog, globaling as g
        case = self.case
        housing.House.Clear()
        housing.ClearRegistries()
        house = housing.House(name="vp")
        store = house.store
        house.assignRegistries()
        logger = iolog.Logger(name="lg", store=store, schedule=g.ACTIVE, prefix=self.root,
                              flushPeriod=case["flush"], keep=case["keep"], cyclePeriod=case["cycle"],
                              fileSize=case["size"], reuse=case["reuse"])
        house.taskers.append(logger)
        house.mids.append(logger)
        house.orderTaskables()
        store.changeStamp(t)
        share = store.create("r.s").create(seq=self.seq, pad="")
        log = iolog.Log(name=LOGNAME, store=store, kind="text", rule=g.ALWAYS if case["rule"] == "always" else g.UPDATE)
        log.addLoggee(tag="s", loggee="r.s")
        logger.addLog(log)
        logger.resolve()
        self.house, self.logger, self.log, self.share = house, logger, log, share
        self.logged = False
        self.pending = False
        self.procs += 1
        if not (case["reuse"] and self.dm is not None):
            self.dm = None          # a fresh directory is created at START
        self._wrap(log)

    def _wrap(self, log):
        me = self
        orig_flush = log.flush
        orig_cycle = log.cycle

        def flush():
            was_open = bool(log.file) and not log.file.closed
            orig_flush()
            if was_open and me.dm is not None:
                me.flushes += 1
                me.dm.gmain = len(me.dm.files[0]["lines"])
                me.dm.ghdr = True

        def cycle(size=0):
            dm = me.dm
            me.cycle_calls += 1
            try:
                pre_ino = os.stat(log.path).st_ino
            except OSError:
                pre_ino = None
            logical = len(dm.text(0))
            me.in_cycle = True
            me.fault_armed = (me.cycle_calls - 1) in me.faults
            me.renames_seen = 0
            before = me.faults_injected
            try:
                r = orig_cycle(size=size)
            finally:
                me.in_cycle = False
                me.fault_armed = False
            faulted = me.faults_injected > before
            rotated = False
            if log.paths and len(log.paths) > 1 and pre_ino is not None:
                try:
                    rotated = os.stat(log.paths[1]).st_ino == pre_ino
                except OSError:
                    rotated = False
            if rotated and faulted:
                me.fail("rotated-although-rename-failed", "the first rename of the rotate chain failed (injected EACCES) and the main "
                        "file was rotated nevertheless")
            if rotated:
                me.rotations += 1
                try:
                    actual = os.path.getsize(log.paths[1])
                except OSError:
                    actual = -1
                if size and actual < size:
                    me.fail("rotated-below-size-threshold", "main file rotated with %d bytes on disk (logical %d) < threshold %d"
                            % (actual, logical, size))
                dm.shift()
            elif faulted and me.faultpos:
                # a rename in the middle of the chain failed: older copies were moved, the main file was not - it goes on
                # with everything it held (the union check at the hooks inside Log.cycle has seen every step); the case ends
                try:
                    with open(log.path, "r") as fh:
                        disk = fh.read()
                except OSError as ex:
                    disk = "<unreadable: %r>" % (ex,)
                if not disk.startswith(dm.text(0, dm.gmain) if not dm.files[0]["lines"] else dm.text(0)):
                    me.fail("main-file-lost-after-failed-rotation", "rename number %d of the rotate chain failed (injected EACCES), so the main "
                            "file was never moved; afterwards it holds %r instead of the %d records written to it (%r)"
                            % (me.faultpos + 1, disk[-80:], len(dm.files[0]["lines"]), dm.text(0)[-80:]))
                raise _EndCase()
            elif faulted:
                pass    # the first rename of the chain failed: nothing moved, the main file goes on (no rotation)
            elif log.paths and (not size or logical >= size):
                me.fail("rotation-skipped-although-size-reached", "Log.cycle(size=%d) was invoked with %d bytes written to the main "
                        "file and did not rotate" % (size, logical))
            return r

        log.flush = flush
        log.cycle = cycle

    # ------------------------------------------------------------------ run
    def run(self):
        from ioflo.base import logging as iolog, globaling as g
        case = self.case
        dt = case["dt"]
        ctls = _norm(case)
        real_os, real_ocfn = iolog.os, iolog.ocfn
        me = self

        def ocfn(filename, openMode="r+", binary=False):
            f = real_ocfn(filename, openMode, binary)
            if me.in_cycle and openMode == "w+":
                me.hook("after truncating open of %s" % os.path.basename(filename))
            return f

        def fault():
            if me.fault_armed:
                if me.renames_seen < me.faultpos:
                    me.renames_seen += 1        # the renames before the chosen position succeed
                    return False
                me.fault_armed = False          # only one rename of that chain
                me.faults_injected += 1
                return True
            return False

        iolog.os = _OsProxy(real_os, self.hook, fault)
        iolog.ocfn = ocfn
        running = False
        try:
            for k, tick in enumerate(case["ticks"]):
                t = k * dt
                c = ctls[k]
                if c == "newproc" or (c == "start" and self.logger is None):
                    self._close_runner()
                    self.new_process(t)
                    if c == "newproc":
                        self._tick_end()
                        continue
                if self.house is None:
                    continue
                self.house.store.changeStamp(t)
                if tick[1] and self.share is not None:
                    self.seq += 1
                    self.share.update(seq=self.seq, pad="x" * tick[2])
                    self.pending = True
                if c in ("start", "run", "stop"):
                    self._predict(t, c)
                    self.logger.runner.send({"start": g.START, "run": g.RUN, "stop": g.STOP}[c])
                    running = c != "stop"
                    if c == "start" and self.dm.path is None:
                        self.dm.path = self.logger.path
                    if c == "stop":
                        self.dm.closed = True
                    else:
                        self._stale(t)
                elif c == "abort":
                    self.logger.runner.send(g.ABORT)
                    running = False
                    self.dm.closed = True
                self._tick_end()
            if running:
                self.logger.runner.send(g.ABORT)
                self.dm.closed = True
                self._tick_end()
        except _EndCase:
            pass
        except Exception as ex:
            self.fail("raises-%s@%s" % (type(ex).__name__, _ioflo_site(ex.__traceback__)), "driving the logger raised %r" % (ex,))
        finally:
            iolog.os = real_os
            iolog.ocfn = real_ocfn
            if self.stop_at is None:
                self._close_runner()
        return self.fails

    def _close_runner(self):
        if self.logger is not None:
            try:
                self.logger.runner.close()
            except Exception:
                pass

    def _predict(self, t, c):
        """Append the record this logger run must write to the model of the main file (before the
        control is sent: flush / cycle wrappers run inside the control)."""
        if c == "start":
            if self.dm is None:
                self.dm = DirModel(self.case["keep"], self.header)
            self.dm.closed = False
        rec = self.case["rule"] == "always" or (not self.logged) or self.pending
        if rec:
            line = "%s\t%s\t%s\n" % (t, self.share["seq"], self.share["pad"])
            self.dm.files[0]["lines"].append(line)
            self.dm.files[0]["times"].append(t)
            self.dm.all.append(line)
            self.logged = True
            self.pending = False
            self.records += 1

    def _stale(self, t):
        dm = self.dm
        period = self.logger.flushPeriod
        f = dm.files[0]
        for j in range(dm.gmain, len(f["lines"])):
            if f["times"][j] <= t - period:
                self.fail("stale-unflushed-record", "after the logger run at %s the record written at %s is still unflushed "
                          "(flush period %s)" % (t, f["times"][j], period))
                break

    def _tick_end(self):
        dm = self.dm
        if dm is None or dm.path is None:
            return
        if not dm.closed and len(dm.files[0]["lines"]) > dm.gmain:
            self.unflushed_points += 1
        self.crash_point(dm.expect_exact(), dm.path, "end of tick")


def check_case(case):
    from vp.core import env
    env.quiet_ioflo()
    root = tempfile.mkdtemp(prefix="vpc23", dir=_TMPROOT)
    try:
        r = Runner(case, root)
        fails = r.run()
    finally:
        shutil.rmtree(root, ignore_errors=True)
    return fails, r


# ======================================================================================
# real kills (thorough tier)

def kill_case(case):
    """Dry run in-process (counts crash points, checks them), then the same case in a subprocess that is
    SIGKILLed at crash point case['kill'] (mod number of points); the directory it leaves is verified."""
    from vp.core import env
    fails, r = check_case(case)
    if r.points == 0:
        return fails, r, None
    kill = case.get("kill", 0)
    if kill % 2 and r.cyc_idx:          # odd: a step inside Log.cycle, even: any crash point
        point = r.cyc_idx[(kill // 2) % len(r.cyc_idx)]
    else:
        point = 1 + (kill // 2) % r.points
    root = tempfile.mkdtemp(prefix="vpc23k", dir=_TMPROOT)
    proc = None
    kind = None
    try:
        envv = dict(os.environ)
        envv["PYTHONPATH"] = env.VERIF + os.pathsep + envv.get("PYTHONPATH", "")
        envv["VP_REPO"] = env.REPO
        proc = subprocess.Popen([env.PYTHON, "-B", "-W", "ignore", "-m", "vp.checks.c23_log_rotation", "--child", root, str(point)],
                                stdin=subprocess.PIPE, stdout=subprocess.PIPE, stderr=subprocess.PIPE, env=envv, cwd=env.VERIF)
        proc.stdin.write(json.dumps(case).encode())
        proc.stdin.close()
        line = proc.stdout.readline()
        if not line.startswith(b"READY "):
            err = proc.stderr.read().decode("utf8", "replace")
            proc.wait()
            # a harness error (exit 2), never a verdict about the property
            raise RuntimeError("C23 harness: child did not reach crash point %d: %r %s" % (point, line[:200], err[-600:]))
        os.kill(proc.pid, signal.SIGKILL)
        proc.wait()
        msg = json.loads(line[6:].decode())
        kind = msg["kind"]
        for sig, what in verify(msg["expect"], msg["dir"]):
            fails.append((sig + "@sigkill", "[process SIGKILLed at crash point %d, %s] %s" % (point, kind, what)))
    finally:
        if proc is not None and proc.poll() is None:
            proc.kill()
            proc.wait()
        if proc is not None:
            for fh in (proc.stdout, proc.stderr):
                try:
                    fh.close()
                except Exception:
                    pass
        shutil.rmtree(root, ignore_errors=True)
    return fails, r, kind


def _child_main(argv):
    root, point = argv[0], int(argv[1])
    from vp.core import env
    env.use_repo()
    env.quiet_ioflo()
    case = json.loads(sys.stdin.read())
    r = Runner(case, root, stop_at=point)
    r.run()
    os.write(1, b"DONE points=%d\n" % r.points)
    os._exit(3)


# ======================================================================================
# several logs of one logger

def check_multilog(case):
    """One rotating Logger with two always-logs of different record sizes (added in either order), START + RUN ticks +
    STOP. Per log, read back after the run: every retained file starts with the header, the records read oldest to
    newest are the contiguous tail of that log's record stream up to its last record, each once - and every rotate
    copy has at least `size` bytes (a file is rotated only when IT has reached the threshold).
    case: {"multilog": True, "keep", "cycle", "size", "dt", "ticks", "pads": [padA, padB], "first": 0|1}"""
    from vp.core import env
    env.quiet_ioflo()
    from ioflo.base import housing, logging as iolog, globaling as g
    root = tempfile.mkdtemp(prefix="vpc23m", dir=_TMPROOT)
    fails = []
    try:
        housing.House.Clear()
        housing.ClearRegistries()
        house = housing.House(name="vp")
        store = house.store
        house.assignRegistries()
        logger = iolog.Logger(name="lg", store=store, schedule=g.ACTIVE, prefix=root, flushPeriod=1.0, keep=case["keep"],
                              cyclePeriod=case["cycle"], fileSize=case["size"], reuse=True)
        house.taskers.append(logger)
        house.mids.append(logger)
        house.orderTaskables()
        store.changeStamp(0.0)
        names = ["A", "B"]
        shares = {}
        for n, pad in zip(names, case["pads"]):
            shares[n] = store.create("r.%s" % n.lower()).create(seq=0, pad="x" * pad)
        order = names if case["first"] == 0 else names[::-1]
        for n in order:
            log = iolog.Log(name=n, store=store, kind="text", rule=g.ALWAYS)
            log.addLoggee(tag="s", loggee="r.%s" % n.lower())
            logger.addLog(log)
        logger.resolve()
        nticks = case["ticks"]
        for k in range(nticks + 1):
            t = k * case["dt"]
            store.changeStamp(t)
            for n in names:
                shares[n].update(seq=k)
            logger.runner.send(g.START if k == 0 else (g.STOP if k == nticks else g.RUN))
        logger.runner.close()
        d = logger.path
        for n, pad in zip(names, case["pads"]):
            hdr = "text\tAlways\t%s\n_time\ts.seq\ts.pad\n" % n
            stream = ["%s\t%s\t%s\n" % (k * case["dt"], k, "x" * pad) for k in range(nticks + 1)]
            got = []
            for fn in ["%s%02d.txt" % (n, j) for j in range(case["keep"], 0, -1)] + ["%s.txt" % n]:
                fp = os.path.join(d, fn)
                if not os.path.exists(fp):
                    continue
                text = open(fp).read()
                if text and not text.startswith(hdr):
                    fails.append(("multilog-header-missing", "%s does not start with the header: %r" % (fn, text[:80])))
                    continue
                if fn != "%s.txt" % n and case["size"] and 0 < len(text) < case["size"]:
                    fails.append(("multilog-rotated-below-size-threshold", "log %s (pad %d, added %s): rotate copy %s holds %d bytes, the size "
                                  "threshold is %d - it was rotated before it had reached it" % (
                                      n, pad, "first" if order[0] == n else "second", fn, len(text), case["size"])))
                got += text[len(hdr):].splitlines(True) if text else []
            if got != stream[len(stream) - len(got):] or (stream and (not got or got[-1] != stream[-1])):
                fails.append(("multilog-records", "log %s: retained records %r.. are not the contiguous tail of its stream (last %r)"
                              % (n, got[:3], stream[-1:])))
    except Exception as ex:   # noqa: BLE001
        fails.append(("multilog-raises-%s@%s" % (type(ex).__name__, _ioflo_site(ex.__traceback__)), "driving the logger raised %r" % (ex,)))
    finally:
        shutil.rmtree(root, ignore_errors=True)
    seen, out = set(), []
    for sgn, w in fails:
        if sgn not in seen:
            seen.add(sgn)
            out.append((sgn, w))
    return out


def multilog_cases():
    out = []
    for keep in (1, 2):
        for size in (100, 300):
            for pads in ([40, 0], [0, 40], [80, 3]):
                for first in (0, 1):
                    for cycle in (0.5, 1.0):
                        out.append({"multilog": True, "keep": keep, "cycle": cycle, "size": size, "dt": 0.125, "ticks": 40,
                                    "pads": pads, "first": first})
    return out


# ======================================================================================
# generator

def case_strategy(kill=False):
    from hypothesis import strategies as st

    @st.composite
    def build(draw):
        keep = draw(st.sampled_from([0, 1, 1, 2, 2, 3]))
        cycle = draw(st.sampled_from([0.25, 0.5, 1.0, 2.0])) if keep else draw(st.sampled_from([0.0, 1.0]))
        size = draw(st.sampled_from([0, 60, 150, 400, 2000, 100000]))
        flush = draw(st.sampled_from([0.25, 1.0, 1.0, 2.0, 4.0]))
        reuse = draw(st.booleans())
        rule = draw(st.sampled_from(["always", "always", "update"]))
        dt = draw(st.sampled_from([0.125, 0.25, 0.5]))
        n = draw(st.integers(8, 60))
        profile = draw(st.sampled_from(["small", "small", "medium", "large"]))
        pads = st.sampled_from({"small": [0, 0, 3, 10, 10, 40], "medium": [0, 10, 40, 40, 150, 150],
                                "large": [40, 150, 400, 400, 600]}[profile])
        dice = st.integers(0, 99)
        ticks = []
        state = "none"
        for k in range(n):
            u = 0 if k == 0 else draw(dice)
            # controls by construction from the runner protocol (no filtering)
            if state == "none":
                c = "start" if u < 92 else "none"
            elif state == "running":
                c = "run" if u < 84 else ("none" if u < 89 else ("stop" if u < 96 else "abort"))
            elif state == "stopped":
                c = "start" if u < 55 else ("newproc" if u < 92 else "none")
            else:  # aborted
                c = "newproc" if u < 92 else "none"
            state = {"start": "running", "stop": "stopped", "abort": "aborted", "newproc": "none"}.get(c, state)
            upd = draw(st.booleans()) if rule == "update" else True
            ticks.append([c, upd, draw(pads)])
        case = {"keep": keep, "cycle": cycle, "size": size, "flush": flush, "reuse": reuse, "rule": rule, "dt": dt, "ticks": ticks}
        if kill:
            case["kill"] = draw(st.integers(0, 10000))
        elif keep and draw(st.integers(0, 2)) == 0:
            # injected fault: the first os.rename of the rotate chain of these Log.cycle invocations fails (EACCES);
            # nothing has moved then, the rotation is abandoned and no record may be lost
            case["renamefault"] = sorted(draw(st.lists(st.integers(0, 6), min_size=1, max_size=3, unique=True)))
            # usually the first rename of the chain fails; sometimes a later one (older copies already moved)
            case["faultpos"] = draw(st.sampled_from([0, 0, 1, 1, 2]))
        return case

    return build()


def _classes(case, r):
    cl = ["keep:%d" % case["keep"], "size:%s" % ("0" if case["size"] == 0 else ("small" if case["size"] <= 400 else "large")),
          "reuse:%s" % case["reuse"], "rule:%s" % case["rule"], "flush:%s" % case["flush"],
          "rotations:%s" % _bucket(r.rotations), "processes:%s" % _bucket(r.procs),
          "cycle-calls:%s" % _bucket(r.cycle_calls)]
    if r.unflushed_points:
        cl.append("crash-points-with-unflushed-records")
    if r.cycle_points:
        cl.append("crash-points-inside-cycle")
    if any(t[0] == "abort" for t in case["ticks"]):
        cl.append("has-abort")
    if r.faults_injected:
        cl.append("rename-fault-injected")
    total = sum(len(f["lines"]) for f in r.dm.files) if r.dm else 0
    if r.dm and sum(len(r.dm.text(k)) for k in range(len(r.dm.files))) > 8192:
        cl.append("more-than-8KiB-retained")
    cl.append("records:%s" % _bucket(r.records))
    return cl


def _bucket(n):
    if n <= 2:
        return str(n)
    if n <= 5:
        return "3-5"
    if n <= 20:
        return "6-20"
    return ">20"


# ======================================================================================
# harness entry points

def plan(tier):
    if tier == "quick":
        return [{"part": "snap", "i": i} for i in range(8)] + [{"part": "multilog", "i": 50}]
    return [{"part": "snap", "i": i} for i in range(11)] + [{"part": "kill", "i": 11 + i} for i in range(5)] + \
        [{"part": "multilog", "i": 50}]


def work(shard, seed, tier):
    from vp.core.hyp import campaign, Outcome, Budget
    acc = Acc()
    if shard["part"] == "multilog":
        for case in multilog_cases():
            fails = check_multilog(case)
            acc.case(key=("multilog", repr(case)), nontrivial=True, classes=["two-logs-one-logger"], sample=None)
            for sig, what in fails:
                acc.fail(sig, what, case)
        acc.note("one rotating logger with two logs of different record sizes: %d configurations enumerated" % len(multilog_cases()))
        return acc
    kill = shard["part"] == "kill"
    if tier == "quick":
        n, budget = 64, 16
    else:
        n, budget = (700, 420) if not kill else (45, 420)
    totals = {"points": 0, "cycle_points": 0, "kills": 0}

    def execute(case):
        if kill:
            fails, r, kind = kill_case(case)
            if kind is not None:
                totals["kills"] += 1
        else:
            fails, r = check_case(case)
            kind = None
        totals["points"] += r.points
        totals["cycle_points"] += r.cycle_points
        classes = _classes(case, r)
        if kind is not None:
            classes.append("sigkill:" + ("inside-cycle" if kind.startswith("inside") else "tick-end"))
        nontrivial = r.rotations >= 2 or r.unflushed_points > 0
        return Outcome(fails, nontrivial=nontrivial, classes=classes, key=case, sample=_sample(case, r))

    campaign(acc, case_strategy(kill=kill), execute, n, seed * 1000 + shard["i"], budget=Budget(budget), shrink=False)
    _shrink_failures(acc, kill)
    acc.extra["crash_points_checked"] = totals["points"]
    acc.extra["crash_points_inside_cycle"] = totals["cycle_points"]
    acc.extra["real_sigkills"] = totals["kills"]
    return acc


def _sample(case, r):
    c = dict(case)
    c["ticks"] = case["ticks"][:12] + (["... %d more" % (len(case["ticks"]) - 12)] if len(case["ticks"]) > 12 else [])
    c["observed"] = {"rotations": r.rotations, "crash_points": r.points, "records": r.records}
    return c


def _shrink_failures(acc, kill, seconds=3.0, max_sigs=3):
    from vp.core.hyp import shrink_json
    from vp.core.acc import Failure, jsonable, unjson
    for sig in sorted(acc.failures)[:max_sigs]:
        if sig.endswith("@sigkill"):
            continue
        case = unjson(acc.failures[sig][0].case)

        def still(c, sig=sig):
            if not _wellformed(c):
                return False
            try:
                return any(s == sig for s, _ in check_case(c)[0])
            except Exception:
                return False
        small = shrink_json(case, still, seconds)
        if small != case:
            what = [w for s, w in check_case(small)[0] if s == sig]
            if what:
                acc.failures[sig].insert(0, Failure(sig, "(shrunk) " + what[0], jsonable(small)))
                del acc.failures[sig][3:]


def _wellformed(c):
    try:
        return (isinstance(c, dict) and isinstance(c["ticks"], list) and c["ticks"]
                and all(isinstance(t, list) and len(t) == 3 and isinstance(t[0], str) and isinstance(t[2], int) and 0 <= t[2] <= 1000
                        for t in c["ticks"])
                and c["keep"] in (0, 1, 2, 3) and c["dt"] in (0.125, 0.25, 0.5) and c["rule"] in ("always", "update")
                and isinstance(c["size"], int) and c["size"] >= 0 and c["flush"] > 0 and c["cycle"] >= 0)
    except Exception:
        return False


def replay(case):
    if case.get("multilog"):
        return check_multilog(case)
    if "kill" in case:
        fails, _, _ = kill_case(case)
    else:
        fails, _ = check_case(case)
    return fails


if __name__ == "__main__":
    if len(sys.argv) >= 4 and sys.argv[1] == "--child":
        _child_main(sys.argv[2:])
