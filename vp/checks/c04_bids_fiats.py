"""C04 Bids and fiats change a tasker's state at its next run, last bid wins.

Generator: programs with several active / inactive / slave framers (all declaration orders
and front/mid/back positions) whose frames issue `bid start|run|stop|abort|ready
<targets|me|all> [at p]` and the fiats `ready|start|run|stop|abort <slave>` in generated
contexts at generated ticks; slaves with first-frame `let` guards that may fail.
Oracle: (a) a small desire model replayed over the recorded history: the control every
taskable receives from the scheduler must equal the last desire written before that run (by
a bid of any framer earlier in the tick / in earlier ticks, or by the tasker's own documented
control-status table); (b) a slave receives a control only from a fiat naming it; (c) every
fiat's result equals "requested status reached" (status yielded by the slave's runner); (d)
a refused start leaves the tasker stopped without entering frames (C08 invariant); (e) the
reference interpreter differential.
"""
from vp.flo.profcheck import ProfileCheck
from vp.flo.engine import all_events

PROPERTY = "C04"
LEVEL = "exploration"
PROFILE = {"driver": True, "taskables": (2, 4), "auxes": (0, 1), "slaves": (0, 2), "frames": (1, 4), "depth": 2, "acts": (1, 5),
           "aux_policy": "clean",
           "kinds": {"data": 3, "go": 5, "let": 3, "timeout": 1, "repeat": 1, "aux": 1, "auxif": 0, "bid": 9, "done": 1, "fiat": 7},
           "needs": {"cmp": 5, "bool": 0, "elapsed": 1, "recurred": 3, "done": 1, "status": 3, "auxdone": 0}}


def _stats(prog, r):
    """bids per (tick, target) and whether a bid's target ran later in the same tick"""
    acts = {}
    for fr in prog["framers"]:
        for f in fr["frames"]:
            for a in f["acts"]:
                acts[a["line"]] = (fr["name"], a)
    per = {}
    later = False
    guarded_fiat = False
    pending = {}
    guarded = {fr["name"] for fr in prog["framers"] if fr["sched"] == "slave" and
               any(a["kind"] == "let" for f in fr["frames"] for a in f["acts"])}
    cur = None
    for t, i, e in all_events(r["real"]):
        if t != cur:
            cur = t
            pending = {}
        if e[0] == "act" and e[5] == "bid":
            F, a = acts[e[4]]
            for tg in a["targets"]:
                nm = F if tg == "me" else tg
                per[(t, nm)] = per.get((t, nm), 0) + 1
                pending[nm] = True
        elif e[0] == "send" and pending.get(e[1]):
            later = True
        elif e[0] == "act" and e[5] == "fiat":
            F, a = acts[e[4]]
            if a["target"] in guarded:
                guarded_fiat = True
    return per, later, guarded_fiat


def nontrivial(prog, r):
    per, later, gf = _stats(prog, r)
    return later or gf or any(v >= 2 for v in per.values())


def classes(prog, r):
    per, later, gf = _stats(prog, r)
    out = []
    if later:
        out.append("bid-target-runs-later-same-tick")
    if any(v >= 2 for v in per.values()):
        out.append("two-bids-one-target-one-tick")
    if gf:
        out.append("fiat-on-guarded-slave")
    if r["feats"]["fiat"]:
        out.append("fiat-ran")
    return out or ["no-bid-or-fiat-interaction"]


CHECK = ProfileCheck(PROFILE, ["c04", "c08"], nontrivial, classes)
RULE = ("Hypothesis-generated programs with 2-4 taskable framers in all orders, slaves (some with first-frame guards), bids and fiats in every context; "
        "desire model over the recorded history (control received == last desire written), slaves only via fiats, fiat result == status reached, + C08 "
        "refused-start invariant + reference differential. non-trivial = a bid whose target runs later in the same tick, two bids on one target in one "
        "tick, or a fiat on a guarded slave; distinct = distinct program AST")
ASSUMPTIONS = ["a tasker's own runner also writes its desire (start->run, run on a stopped tasker->start, refused start->stop, abort->abort) as its control table documents; the model replays these",
               "`bid .. all` addresses the scheduled taskers only"]
META = {"level": LEVEL,
        "text": "The control received by every scheduled tasker at every run of thousands of generated programs is recomputed from the history of bids with a ten-line desire model; every control reaching a slave and every fiat result is checked.",
        "note": "Bid targets and verbs are taken from the script AST; statuses from the runners' own yields.",
        "technique": "Hypothesis program generation + desire model over the history + reference differential",
        "design_ref": "DESIGN.md section 3, C04"}
plan, work, replay = CHECK.plan, CHECK.work, CHECK.replay
