"""C16 Script layout does not change what is built (nor the resulting run).

Programs: (a) the example plans ioflo/app/plan/*.flo that build standalone (decided at run
time by building each one from a private temp dir; testServer.flo, anything with a `server`
or `load` command is left out; plans with a logger are compared on structure only, never
run, because their loggers write under /tmp/log), (b) generated small programs
(vp.flo.metagen.small_program: framers with clauses, nested frames with via inodes, pokes with
direct / indirect / relative operands, quoted strings incl. '#' and blanks, needs with
comparisons / tolerance / and / not / markers, do with clauses, aux, timeout / repeat, bids,
optionally a logger whose directory is a temp dir that is removed).

Each program is rendered under a random layout (vp.flo.metagen.layout) that uses only the
transformations the property names: re-indentation (blanks; tabs only in front of the first
line of a command or connective piece), several blanks between tokens, backslash
continuations between tokens, continuation lines starting with a connective or comparison,
blank / comment lines between commands and between connective pieces, trailing ` # comment`.
NOT applied (not claimed): comments or blank lines inside a backslash continuation, tabs
between tokens or in front of a backslash-continued line, splits inside quotes.

Oracle (metamorphic): same build outcome class and identical structure dump as the canonical
layout and, for programs that are run, identical result of a tick-bounded run (exception class
+ final store paths / values / stamps).
"""
import glob
import json
import os
import random
import shutil
import tempfile

from hypothesis import strategies as st

from vp.core import env
from vp.core.acc import Acc
from vp.core.hyp import campaign, Outcome, Budget
from vp.flo import metagen

PROPERTY = "C16"
LEVEL = "exploration"
RULE = ("(a) every example plan under ioflo/app/plan that builds standalone (no server/load) and (b) Hypothesis-"
        "generated small programs, each rendered under random layouts drawn from exactly the claimed "
        "transformations (indent, leading tab, multiple blanks, backslash continuation, connective/comparison "
        "continuation line, blank line, comment line, trailing comment); build outcome + structure dump compared "
        "with the canonical layout, and for runnable programs the final store after a 20-tick bounded run; "
        "non-trivial = the layout applies >= 2 different transformation kinds to one command of >= 4 tokens; "
        "distinct = distinct (program text, layout text)")
ASSUMPTIONS = [
    "a FloScript token is what globaling.REO_Chunks calls a chunk (blank separated, single/double quoted strings "
    "kept whole, '#...' to end of line is a comment); example plans are split into per-line token lists with the "
    "same expression and lines that do not re-tokenize to themselves are kept verbatim",
    "tabs are used only as leading white space of the first line of a command or of a connective continuation "
    "line; a tab in front of a backslash-continued line ends up between tokens after joining, which the "
    "property does not claim to support",
    "structure = vp.flo.dump (act.human and act.count, i.e. command text and line number, excluded); run result = "
    "exception class of Skedder.run + vp.flo.dump.dump_store of every house after at most 20 ticks "
    "(wall-clock shares .realtime/.datetime and .meta.filepath masked)",
    "plans with a logger are never run (they write under /tmp/log); generated loggers write into a fresh temp "
    "dir that is removed after the case",
    "a program whose canonical run is not reproducible (two runs of the same text differ) is compared on "
    "structure only",
]
META = {
    "level": "exploration",
    "text": "All standalone example plans and several hundred generated programs are re-laid-out with random "
            "combinations of every claimed transformation and compared by full structure dump and bounded-run "
            "result; the tokenizer / continuation look-ahead paths are all driven. Absence of a layout dependence "
            "is shown for the explored (program, layout) pairs only.",
    "note": "Trusts the harness' notion of token boundaries (same regular expression as the tree) and the structure dump.",
    "technique": "metamorphic: random layout transformations of example plans and generated programs vs canonical layout (structure dump + bounded run)",
    "design_ref": "DESIGN.md section 3, C16",
}

TICKS = 20
PLAN_EXCLUDE = ("testServer.flo",)
_TMPROOT = "/dev/shm" if os.path.isdir("/dev/shm") and os.access("/dev/shm", os.W_OK) else None


# ------------------------------------------------------------------------------ executing one text
def evaluate(text, run, ticks=TICKS, files=None):
    """Build (and optionally run) text (+ files pulled in with `load`) -> dict(outcome, dump json, run json)."""
    from vp.flo.build import build_text, run_bounded
    from vp.flo import dump
    logdir = None
    cwd = os.getcwd()
    scratch = tempfile.mkdtemp(prefix="vpcwd", dir=_TMPROOT)    # a mis-read path must not litter the checkout
    try:
        os.chdir(scratch)
        if metagen.LOGDIR in text or any(metagen.LOGDIR in t for t in (files or {}).values()):
            logdir = tempfile.mkdtemp(prefix="vplog", dir=_TMPROOT)
            text = text.replace(metagen.LOGDIR, logdir)
            files = dict((k, t.replace(metagen.LOGDIR, logdir)) for k, t in (files or {}).items()) or None
        with env.cpu_watchdog(60):
            b = build_text(text, files=files)
            res = {"outcome": "ok" if (b.ok and b.exc is None) else b.outcome, "dump": None, "run": None,
                   "err": str(b.exc)[:200] if b.exc is not None else ""}
            if res["outcome"] != "ok":
                return res
            d = json.dumps(dump.dump_houses(b.houses), sort_keys=True, default=repr)
            if run:
                tb, exc = run_bounded(b.skedder, ticks)
                r = {"exc": type(exc).__name__ if exc is not None else None, "ticks": tb.tick,
                     "stores": [dump.dump_store(h.store) for h in b.houses]}
                rj = json.dumps(r, sort_keys=True, default=repr)
            else:
                rj = None
        if logdir:
            d = d.replace(logdir, metagen.LOGDIR)
            if rj:
                rj = rj.replace(logdir, metagen.LOGDIR)
        res["dump"] = d
        res["run"] = rj
        return res
    finally:
        os.chdir(cwd)
        shutil.rmtree(scratch, ignore_errors=True)
        if logdir:
            shutil.rmtree(logdir, ignore_errors=True)


def compare(a, b):
    """-> None or (kind, explanation)"""
    from vp.flo import dump
    if a["outcome"] != b["outcome"]:
        return "outcome", "build outcome %s (%s) vs %s (%s)" % (a["outcome"], a["err"], b["outcome"], b["err"])
    if a["dump"] != b["dump"]:
        return "dump", "structure differs: " + str(dump.first_diff(json.loads(a["dump"]), json.loads(b["dump"])))
    if a["run"] is not None and b["run"] is not None and a["run"] != b["run"]:
        return "run", "run result differs: " + str(dump.first_diff(json.loads(a["run"]), json.loads(b["run"])))
    return None


# ------------------------------------------------------------------------------ plans
def plan_names():
    """Example plans that are candidates (cheap textual filter, nothing is built here)."""
    out = []
    for path in sorted(glob.glob(os.path.join(env.REPO, "ioflo", "app", "plan", "*.flo"))):
        if os.path.basename(path) not in PLAN_EXCLUDE:
            out.append(path)
    return out


def qualify(path):
    """-> None (plan not usable standalone) or {"text":..., "run": bool}"""
    text = open(path).read()
    verbs = [ln.split()[0] for ln in text.split("\n") if ln.split()]
    if "server" in verbs or "load" in verbs:
        return None
    if evaluate(text, run=False)["outcome"] != "ok":
        return None
    return {"text": text, "run": "logger" not in verbs}   # reproducibility of the run: canon_result()


# ------------------------------------------------------------------------------ cases
def make_case(src, canon, gen_lines, seed, intensity, kinds, run):
    return {"src": src, "canon": canon, "gen_lines": gen_lines, "seed": seed, "intensity": intensity,
            "kinds": list(kinds), "run": bool(run), "ticks": TICKS}


def case_variant(case, kinds=None, reseed=0, intensity=None):
    items = case["gen_lines"] if case.get("gen_lines") else metagen.plan_logical_lines(case["canon"])
    kinds = case["kinds"] if kinds is None else kinds
    intensity = case["intensity"] if intensity is None else intensity
    if case.get("split") and case.get("gen_lines"):
        return split_variant(case, items, kinds, reseed, intensity)[:3]
    return metagen.layout(items, random.Random(case["seed"] + reseed), intensity, kinds=kinds)


LOADED = "part.flo"


def split_variant(case, items, kinds, reseed, intensity):
    """The same commands spread over two files: commands [k, m) go to a second script that the main script pulls in
    with `load` at that point. Both files are laid out with the claimed transformations; the loaded file ends right
    after its last physical line (no final newline), so a connective-led continuation line can be the very last line
    of a loaded file. -> (main text, used, ntoks, {file name: text})"""
    n = len(items)
    a, b = case["split"][:2]
    k = 1 + a % max(1, n - 1)
    m = k + 1 + b % max(1, n - k)
    m = min(m, n)
    rnd = random.Random(case["seed"] + reseed)
    head, used1, nt1 = metagen.layout(items[:k], rnd, intensity, kinds=kinds)
    part, used2, nt2 = metagen.layout(items[k:m], rnd, intensity, kinds=kinds)
    tail, used3, nt3 = metagen.layout(items[m:], rnd, intensity, kinds=kinds) if m < n else ("", [], [])
    part = part.rstrip("\n")
    if case["split"][2] % 3 == 0:
        part += "\n"
    main = head + ("" if head.endswith("\n") else "\n") + "load %s\n" % LOADED + tail
    return main, used1 + used2 + used3, nt1 + nt2 + nt3, {LOADED: part}


def variant_files(case, kinds=None, reseed=0, intensity=None):
    if case.get("split") and case.get("gen_lines"):
        items = case["gen_lines"]
        return split_variant(case, items, case["kinds"] if kinds is None else kinds, reseed,
                             case["intensity"] if intensity is None else intensity)[3]
    return None


_CANON_CACHE = {}
_CULPRITS = []


def canon_result(case):
    key = (case["canon"], case["run"])
    if key not in _CANON_CACHE:
        if len(_CANON_CACHE) > 64:
            _CANON_CACHE.clear()
        res = evaluate(case["canon"], case["run"], case.get("ticks", TICKS))
        if case["run"] and res["outcome"] == "ok":
            again = evaluate(case["canon"], True, case.get("ticks", TICKS))
            if again["run"] != res["run"]:
                res["run"] = None  # not reproducible: structure only
        _CANON_CACHE[key] = res
    return _CANON_CACHE[key]


def run_case(case):
    """-> (failures, info)"""
    ref = canon_result(case)
    text, used, ntoks = case_variant(case)
    got = evaluate(text, case["run"] and ref["run"] is not None, case.get("ticks", TICKS), files=variant_files(case))
    info = {"used": used, "ntoks": ntoks, "outcome": ref["outcome"], "ran": ref["run"] is not None,
            "variant": text}
    diff = compare(ref, got)
    if diff is None:
        return [], info
    kind, what = diff
    # root-cause signature: the smallest set of transformation kinds (1, then 2) that changes the
    # result of this program in one of a few fresh full-intensity layouts
    culprit = None
    ks = list(case["kinds"])
    run = ref["run"] is not None
    ticks = case.get("ticks", TICKS)

    def breaks(subset):
        for t in range(5):
            txt, _, _ = case_variant(case, subset, reseed=t, intensity=1.0 if t else None)
            fls = variant_files(case, subset, reseed=t, intensity=1.0 if t else None)
            if compare(ref, evaluate(txt, run, ticks, files=fls)) is not None:
                return True
        return False

    for known in list(_CULPRITS):   # root causes already seen in this process are tried first
        if set(known) <= set(ks) and breaks(list(known)):
            culprit = "+".join(known)
            break
    if culprit is None:
        for k in ks:
            if breaks([k]):
                culprit = k
                break
    if culprit is None:
        for i in range(len(ks)):
            for j in range(i + 1, len(ks)):
                if breaks([ks[i], ks[j]]):
                    culprit = "+".join(sorted((ks[i], ks[j])))
                    break
            if culprit:
                break
    if culprit and tuple(culprit.split("+")) not in _CULPRITS:
        _CULPRITS.append(tuple(culprit.split("+")))
    sig = "layout:%s%s" % (culprit or "combination", "@loaded-file" if case.get("split") else "")
    return [(sig, "%s (%s) [program %s, layout seed %d, kinds %s]" % (what, kind, case["src"], case["seed"],
                                                                      ",".join(case["kinds"])))], info


def execute(case):
    fails, info = run_case(case)
    nontrivial = any(len(u) >= 2 and n >= 4 for u, n in zip(info["used"], info["ntoks"]))
    kinds_used = sorted({k for u in info["used"] for k in u})
    classes = ["src:" + ("plan" if case["src"].startswith("plan:") else "gen"),
               "canon->" + info["outcome"], "ran" if info["ran"] else "structure-only"]
    classes += ["kind:" + k for k in kinds_used]
    if case.get("split"):
        classes.append("spread-over-a-loaded-file")
    if case["src"].startswith("plan:"):
        classes.append(case["src"])
    sample = {"src": case["src"], "kinds": kinds_used, "variant_head": info["variant"][:300]}
    return Outcome(fails, nontrivial=nontrivial, classes=classes, key=[case["canon"], info["variant"]], sample=sample)


kinds_strategy = st.one_of(
    st.just(list(metagen.LAYOUT_KINDS)),
    st.just(list(metagen.LAYOUT_KINDS)),
    st.lists(st.sampled_from(metagen.LAYOUT_KINDS), min_size=2, max_size=4, unique=True).map(sorted),
)
intensity_strategy = st.sampled_from([0.3, 0.5, 0.8, 1.0])
seed_strategy = st.integers(0, 2 ** 31 - 1)


@st.composite
def gen_case(draw):
    prog = draw(metagen.small_program())
    case = make_case("gen", metagen.canonical_text(prog["lines"]), prog["lines"], draw(seed_strategy),
                     draw(intensity_strategy), draw(kinds_strategy), True)
    if draw(st.integers(0, 2)) == 0:
        # the same commands spread over the main script and a script it loads
        case["split"] = [draw(st.integers(0, 40)), draw(st.integers(0, 40)), draw(st.integers(0, 2))]
    return case


def plan(tier):
    if tier == "quick":
        return [{"part": "plans", "i": i, "n": 3, "layouts": 4} for i in range(3)] + \
               [{"part": "gen", "i": i, "n": 5, "count": 100} for i in range(5)]
    return [{"part": "plans", "i": i, "n": 8, "layouts": 50} for i in range(8)] + \
           [{"part": "gen", "i": i, "n": 24, "count": 1250} for i in range(24)]


def work(shard, seed, tier):
    acc = Acc()
    if shard["part"] == "plans":
        pl = {}
        for path in plan_names()[shard["i"]::shard["n"]]:
            q = qualify(path)
            if q is not None:
                pl[os.path.basename(path)] = q
        names = sorted(pl)
        acc.extra["example_plans_used"] = len(pl)
        allk = list(metagen.LAYOUT_KINDS)
        for pi, name in enumerate(names):
            for k in range(shard["layouts"]):
                # layout seed and kind subset are plain functions of (VERIF_SEED, plan, k)
                lseed = (seed * 1000003 + (shard["i"] + pi * shard["n"]) * 7919 + k * 104729) % (2 ** 31)
                kinds = allk if k % 3 else sorted(allk[(k // 3 + j * 3) % len(allk)] for j in range(3))
                case = make_case("plan:" + name, pl[name]["text"], None, lseed,
                                 [0.3, 0.5, 0.8, 1.0][k % 4], kinds, pl[name]["run"])
                out = execute(case)
                acc.case(key=out.key, nontrivial=out.nontrivial, classes=out.classes, sample=out.sample)
                for sig, what in out.failures:
                    acc.fail(sig, what, case)
        return acc
    campaign(acc, gen_case(), execute, shard["count"], seed * 1000 + 100 + shard["i"],
             budget=Budget(300 if tier == "quick" else 2400), shrink_examples=80)
    return acc


def replay(case):
    fails, info = run_case(case)
    return fails
