"""C03 Scheduler stops when nothing runs and aborts every remaining tasker.

Generator: small multi-framer programs (active / inactive framers, auxiliaries owned by
them, stop/abort bids at generated ticks) and, for each program, an ENUMERATION of crash
points taken from its own fault-free trace: every (tick, k-th executed action) of every tick
before the last, each once with an exception raised by the action (RuntimeError subclass) and
once with a KeyboardInterrupt delivered there, plus a KeyboardInterrupt between every two
ticks (bounded per program in the quick tier by a seed-chosen stride).
Oracle: (a) the reference interpreter run with the same crash plan: the run must end at the
same tick with the same event history (which tasker ran, which got which control, which
frames exited in which order during the sweep); (b) history invariants: an action's exception
is re-raised by Skedder.run, a keyboard interrupt is not; the taskers sent the final abort
are exactly those still scheduled (not aborted earlier, generator not killed by the fault),
each once, yielding aborted, with no control afterwards; no scheduled framer nor any of its
auxiliaries is left with entered frames; (c) C06 bracketing invariants on the whole history;
(d) the same Skedder object is run a second time (after the fault-free end and after a keyboard
interrupt between ticks): the second run satisfies (b), (c), at most one control per tasker per
tick and at most one abort per tasker.
"""
from vp.core.acc import Acc
from vp.core.hyp import campaign, Outcome, Budget
from vp.flo import gen, inv as I
from vp.flo.engine import run_case, prog_key

PROPERTY = "C03"
LEVEL = "fault_enumeration"
PROFILE = {"driver": False, "taskables": (1, 4), "auxes": (0, 2), "slaves": (0, 0), "frames": (1, 4), "depth": 2, "acts": (0, 4),
           "aux_policy": "clean", "aux_owner": "taskable", "aux_place": "first", "let_in_aux": False, "ticks": (2, 7),
           "kinds": {"data": 5, "go": 5, "let": 1, "timeout": 1, "repeat": 1, "aux": 1, "auxif": 1, "bid": 5, "done": 1, "fiat": 0},
           "needs": {"cmp": 3, "bool": 0, "elapsed": 1, "recurred": 4, "done": 1, "status": 2, "auxdone": 0}}


def crash_points(trace, limit, seed):
    pts = []
    calls = trace.get("calls") or []
    for t, n in enumerate(calls):
        for k in range(1, n + 1):
            pts.append({"tick": t, "nth": k, "exc": "RuntimeError"})
            pts.append({"tick": t, "nth": k, "exc": "KeyboardInterrupt"})
    for t in range(1, len(calls) + 1):
        pts.append({"tick": t, "between": True})
    if limit and len(pts) > limit:
        stride = -(-len(pts) // limit)
        off = seed % stride
        pts = [p for i, p in enumerate(pts) if i % stride == off]
    return pts


def eval_case(prog, crash):
    case = {"prog": prog, "crash": crash}
    r = run_case(case)
    fails = []
    if r["real"]["build"] != "True":
        return [r["diff"]], r
    if r["diff"]:
        fails.append(("ref-" + r["diff"][0], "crash=%r: differs from the reference interpreter: %s" % (crash, r["diff"][1])))
    for sig, what in I.inv_c03(prog, r["real"], crash):
        fails.append((sig, what + "\n" + r["text"]))
    for sig, what in I.inv_c06(prog, r["real"], crash=bool(crash)):
        if sig == "c06-entered-set" and crash:
            continue      # a generator killed by the fault legitimately leaves its frames entered
        fails.append((sig, "crash=%r: %s\n%s" % (crash, what, r["text"])))
    seen = set()
    out = []
    for sig, what in fails:
        if sig not in seen:
            seen.add(sig)
            out.append((sig, what))
    return out, r


def eval_rerun(prog, crash, ticks2):
    """The same Skedder run a second time (after a fault-free end or a keyboard interrupt of the first run): the second
    run is a run like any other - every tasker is sent at most one control per tick and, however it ends, every tasker
    still scheduled gets exactly one abort, nothing afterwards, and leaves no frame entered."""
    from vp.flo.run import run_real
    from vp.flo import ast as A
    text, _ = A.render(prog)
    tr = run_real(prog, crash=crash, text=text, rerun=ticks2)
    t2 = tr.get("rerun")
    fails = []
    if not t2:
        return fails, False
    for sig, what in I.inv_c03(prog, t2, None):
        fails.append(("rerun-" + sig, "second run of the same Skedder (first run crash=%r): %s\n%s" % (crash, what, text)))
    for sig, what in I.inv_c06(prog, t2, crash=False):
        fails.append(("rerun-" + sig, "second run of the same Skedder (first run crash=%r): %s\n%s" % (crash, what, text)))
    # at most one control per tasker per tick, at most one abort per tasker in the whole run
    aborts = {}
    for tick, rec in enumerate(t2["ticks"] + [t2["final"]]):
        per = {}
        for e in rec["events"]:
            if e[0] == "send":
                if e[2] == "abort":
                    aborts[e[1]] = aborts.get(e[1], 0) + 1
                else:
                    per[e[1]] = per.get(e[1], 0) + 1
        for name, n in per.items():
            if n > 1:
                fails.append(("rerun-controls-per-tick", "second run of the same Skedder: tasker %s was sent %d controls in tick %d\n%s" % (name, n, tick, text)))
                break
    for name, n in aborts.items():
        if n > 1:
            fails.append(("rerun-aborts", "second run of the same Skedder: tasker %s was sent %d aborts\n%s" % (name, n, text)))
    seen, out = set(), []
    for sig, what in fails:
        if sig not in seen:
            seen.add(sig)
            out.append((sig, what))
    return out, True


def plan(tier):
    n, count, limit = (8, 14, 40) if tier == "quick" else (16, 200, 0)
    return [{"part": "rand", "i": i, "n": n, "count": count, "limit": limit} for i in range(n)]


def work(shard, seed, tier):
    acc = Acc()
    budget = Budget(150 if tier == "quick" else 1800)

    def execute(prog):
        fails, r = eval_case(prog, None)
        allf = list(fails)
        if not r["feats"]:
            return Outcome(allf, nontrivial=False, classes=["did-not-build"], key=prog_key(prog))
        pts = crash_points(r["real"], shard["limit"], seed)
        ends = set()
        npts = 0
        for c in pts:
            if budget.out():
                acc.budget_hit = True
                break
            f2, r2 = eval_case(prog, c)
            npts += 1
            acc.case(key=(prog_key(prog), str(sorted(c.items()))), nontrivial=True,
                     classes=["crash-between-ticks" if c.get("between") else "crash-in-action-" + c["exc"]])
            for sig, what in f2:
                acc.fail(sig, what, {"prog": prog, "crash": c})
        # second run of the same Skedder: after the fault-free run and after one keyboard interrupt between ticks
        rr = [None] + [c for c in pts if c.get("between")][:1]
        for c in rr:
            f3, ran = eval_rerun(prog, c, prog.get("ticks", 5))
            if ran:
                acc.case(key=(prog_key(prog), "rerun", str(c)), nontrivial=True, classes=["second-run-of-the-same-skedder"])
            for sig, what in f3:
                acc.fail(sig, what, {"prog": prog, "crash": c, "rerun": prog.get("ticks", 5)})
        st = r["real"]["final"]["snap"]["framers"]
        nt = len({v["status"] for v in st.values()}) >= 2
        return Outcome(allf, nontrivial=nt, classes=["fault-free", "crash-points=%s" % ("0" if not npts else ("1-20" if npts <= 20 else ">20"))],
                       key=prog_key(prog), sample={"script": r["text"], "crash_points_enumerated": npts})
    campaign(acc, gen.program(PROFILE), execute, shard["count"], seed * 1000 + shard["i"],
             to_case=lambda p: {"prog": p, "crash": None}, budget=budget, shrink=False)
    return acc


def replay(case):
    if case.get("rerun"):
        return eval_rerun(case["prog"], case.get("crash"), case["rerun"])[0]
    fails, r = eval_case(case["prog"], case.get("crash"))
    return fails


RULE = ("Hypothesis-generated small multi-framer programs with stop/abort bids; for each, every (tick, k-th action) crash point of its fault-free trace "
        "(all ticks before the last) x {exception raised by the action, keyboard interrupt} plus a keyboard interrupt between every two ticks "
        "(quick: <= 40 points per program by seed-chosen stride; thorough: all); oracle = reference interpreter under the same crash plan + abort-sweep and "
        "frames-left-entered invariants + C06 bracketing; plus a second run of the same Skedder object checked by the invariants. non-trivial = a case with a crash point, or a fault-free run ending with framers in different "
        "states; distinct = distinct (program, crash point)")
ASSUMPTIONS = ["a fault inside the final abort sweep itself is not injected (the statement covers faults that end the run)",
               "the framer whose action raised (and any framer whose generator the exception passed through) is no longer scheduled and is not swept; its frames may stay entered",
               "slaves are not part of the generated programs here (they are never scheduled, hence never swept)"]
META = {"level": LEVEL,
        "text": "Crash points are enumerated from each program's own trace, so every action position of every tick is hit with both fault kinds; the run's end state is checked both against an interpreter that models generator death and the sweep, and by direct invariants on the aborts and exits.",
        "note": "Faults are injected by the harness probe in front of the action; real process death is not part of this property.",
        "technique": "fault injection at every enumerated (tick, action) crash point of Hypothesis-generated programs vs reference interpreter + history invariants",
        "design_ref": "DESIGN.md section 3, C03"}
